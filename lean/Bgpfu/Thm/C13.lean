import Bgpfu.Lemmas.Readers
import Bgpfu.Lemmas.Hello
import Bgpfu.Lemmas.Rename
import Bgpfu.Lemmas.Misc
/-!
# C13 — parsing is invariant under XML-equivalent serialisations of a message

What is decided here, on the event level (the level the readers work at):
* comments between children, at every level of the reply and hello grammars — **invariant**
  (theorems over all grammar documents);
* an XML declaration in front of the message — **invariant** (theorem over all event lists);
* whitespace around token-valued leaf text — **invariant** (theorem over all strings);
* `<x/>` versus `<x></x>` — **not invariant** for the positive indications the readers match as
  `Event::Empty` only (`…_cex`, recorded as known findings);
* a comment *inside* a leaf's text — **not invariant** (the leaf is read as the raw source span).
* namespace-prefix choice (prefix vs default namespace, another prefix for the same namespace):
  in the event list it is a renaming of the raw qualified names of elements — **invariant** for
  every reader (replies, hello, the agent's candidate and installed-policies readers), every event
  list and every injective renaming (last section; lemmas in `Lemmas/Rename.lean`). That quick-xml
  maps a prefix rewrite of the text to exactly such a renaming is tested (`meta` op), not proved.
* comments before and after the root element (XML `document ::= prolog element Misc*`) —
  **invariant** (theorems over all event lists, every configuration; final section `Misc`, lemmas in
  `Lemmas/Misc.lean`); white space there is trimmed away by the tokenizer, so comments are the only
  `Misc` items that reach the readers unchanged in meaning (a PI is part of the infoset, not an
  equivalent rewrite; at document level it is rejected: `trailing_pi_cex`).
Inter-element whitespace, attribute order and quoting are rewrites the tokenizer absorbs: they are
invisible in the event list, so they are covered by the metamorphic correspondence run (`meta` op)
only — that part is testing.
-/
namespace Xml

/-! ### comments -/

theorem emptyAbs_comment (th : Bool) (es : List RpcError) (a b : List Top) :
    emptyAbs th es (a ++ .comment :: b) = emptyAbs th es (a ++ b) := by
  induction a generalizing th es with
  | nil => rfl
  | cons x xs ih => cases x <;> simp only [List.cons_append, emptyAbs, ih]

theorem dataAbs_comment (th : Option String) (es : List RpcError) (a b : List Top) :
    dataAbs th es (a ++ .comment :: b) = dataAbs th es (a ++ b) := by
  induction a generalizing th es with
  | nil => rfl
  | cons x xs ih => cases x <;> simp only [List.cons_append, dataAbs, ih]

theorem bareAbs_comment (es : List RpcError) (a b : List Top) :
    bareAbs es (a ++ .comment :: b) = bareAbs es (a ++ b) := by
  induction a generalizing es with
  | nil => rfl
  | cons x xs ih => cases x <;> simp only [List.cons_append, bareAbs, ih]

theorem loadInnerAbs_comment (c : RCfg) (st : LoadSt) (a b : List Inner) :
    loadInnerAbs c st (a ++ .comment :: b) = loadInnerAbs c st (a ++ b) := by
  induction a generalizing st with
  | nil => rfl
  | cons x xs ih =>
    cases x <;> simp only [List.cons_append, loadInnerAbs, ih]

theorem loadAbs_comment (c : RCfg) (st : LoadSt) (a b : List Top) :
    loadAbs c st (a ++ .comment :: b) = loadAbs c st (a ++ b) := by
  induction a generalizing st with
  | nil => rfl
  | cons x xs ih =>
    cases x <;> simp only [List.cons_append, loadAbs, ih]

theorem loadAbs_inner_comment (c : RCfg) (st : LoadSt) (pre post : List Top) (r : String) (a b : List Inner) :
    loadAbs c st (pre ++ .results r (a ++ .comment :: b) :: post) = loadAbs c st (pre ++ .results r (a ++ b) :: post) := by
  induction pre generalizing st with
  | nil => simp only [List.nil_append, loadAbs, loadInnerAbs_comment]
  | cons x xs ih =>
    cases x <;> simp only [List.cons_append, loadAbs, ih]

/-- **Comments between the children of `<rpc-reply>` make no difference** — for every reply type,
every document of the grammar, every insertion position. -/
theorem reply_comment_invariant (c : RCfg) (k : ReplyKind) (a b : List Top) :
    replyAbs c k (a ++ .comment :: b) = replyAbs c k (a ++ b) := by
  cases k <;> simp only [replyAbs]
  · exact emptyAbs_comment _ _ _ _
  · exact dataAbs_comment _ _ _ _
  · exact bareAbs_comment _ _ _
  · exact loadAbs_comment _ _ _ _

theorem inert_comment (name : String) (a b : List Ev) :
    Inert name (a ++ .comment :: b) ↔ Inert name (a ++ b) := by
  induction a with
  | nil => simp [Inert]
  | cons x xs ih => cases x <;> simp [Inert, ih]

/-- the same statement about the real reader on the rendered event lists -/
theorem readMessage_comment_invariant (c : RCfg) (k : ReplyKind) (raw idAttr : String) (extra : List AttrItem)
    (a b : List Top) (id : Nat) (hid : parseUsize idAttr = some id) (hwf : ∀ x ∈ a ++ b, x.WF)
    (hin : Inert raw ((a ++ b).flatMap Top.render)) :
    readMessage c k (replyDoc raw idAttr extra (a ++ .comment :: b))
      = readMessage c k (replyDoc raw idAttr extra (a ++ b)) := by
  have hwf' : ∀ x ∈ a ++ .comment :: b, x.WF := by
    intro x hx
    simp only [List.mem_append, List.mem_cons] at hx
    rcases hx with hx | rfl | hx
    · exact hwf x (by simp [hx])
    · trivial
    · exact hwf x (by simp [hx])
  have hin' : Inert raw ((a ++ .comment :: b).flatMap Top.render) := by
    simp only [List.flatMap_append, List.flatMap_cons, Top.render, List.singleton_append] at hin ⊢
    exact (inert_comment raw _ _).mpr hin
  rw [readMessage_doc c k raw idAttr extra _ id hid hwf' hin',
      readMessage_doc c k raw idAttr extra _ id hid hwf hin, reply_comment_invariant]

/-- comments between the children of `<load-configuration-results>` -/
theorem load_results_comment_invariant (c : RCfg) (pre post : List Top) (r : String) (a b : List Inner) :
    replyAbs c .load (pre ++ .results r (a ++ .comment :: b) :: post)
      = replyAbs c .load (pre ++ .results r (a ++ b) :: post) := by
  simp only [replyAbs]; exact loadAbs_inner_comment _ _ _ _ _ _ _

theorem capsAbs_comment (c : RCfg) (hc : c.capsComment = true) (o : UriOracle) (acc : List Capability) (a b : List CapLeaf) :
    capsAbs c o acc (a ++ .comment :: b) = capsAbs c o acc (a ++ b) := by
  induction a generalizing acc with
  | nil => simp [capsAbs, hc]
  | cons x xs ih =>
    cases x with
    | comment => simp only [List.cons_append, capsAbs, hc, if_true, ih]
    | cap s i => simp only [List.cons_append, capsAbs]; split <;> simp [ih]

theorem helloAbs_comment (c : RCfg) (o : UriOracle) (caps : Option (List Capability)) (sid : Option Nat) (a b : List HChild) :
    helloAbs c o caps sid (a ++ .comment :: b) = helloAbs c o caps sid (a ++ b) := by
  induction a generalizing caps sid with
  | nil => rfl
  | cons x xs ih =>
    cases x <;> simp only [List.cons_append, helloAbs, ih]

theorem helloAbs_caps_comment (c : RCfg) (hc : c.capsComment = true) (o : UriOracle) (caps : Option (List Capability))
    (sid : Option Nat) (pre post : List HChild) (r : String) (a b : List CapLeaf) :
    helloAbs c o caps sid (pre ++ .caps r (a ++ .comment :: b) :: post)
      = helloAbs c o caps sid (pre ++ .caps r (a ++ b) :: post) := by
  induction pre generalizing caps sid with
  | nil => simp only [List.nil_append, helloAbs, capsAbs_comment c hc]
  | cons x xs ih =>
    cases x <;> simp only [List.cons_append, helloAbs, ih]

/-- **Comments in a hello make no difference** — between the children of `<hello>` and (in the
current code) between the `<capability>` elements. -/
theorem hello_comment_invariant (adv : Bool) (o : UriOracle) (a b : List HChild) :
    establishAbs .fixed adv o (a ++ .comment :: b) = establishAbs .fixed adv o (a ++ b) := by
  simp only [establishAbs, helloAbs_comment]

theorem hello_caps_comment_invariant (adv : Bool) (o : UriOracle) (pre post : List HChild) (r : String) (a b : List CapLeaf) :
    establishAbs .fixed adv o (pre ++ .caps r (a ++ .comment :: b) :: post)
      = establishAbs .fixed adv o (pre ++ .caps r (a ++ b) :: post) := by
  simp only [establishAbs, helloAbs_caps_comment .fixed rfl]

/-! ### XML declaration -/

/-- **An XML declaration in front of a reply makes no difference** — for every event list. -/
theorem reply_decl_invariant (k : ReplyKind) (evs : List Ev) :
    readMessage .fixed k (.decl :: evs) = readMessage .fixed k evs := by
  have h1 : ∀ mid, readPartial .fixed ((Ev.decl :: evs).length + 1) mid (.decl :: evs)
      = readPartial .fixed (evs.length + 1) mid evs := by
    intro mid; simp [readPartial, RCfg.fixed]
  have h2 : ∀ th, fromXmlReply .fixed k ((Ev.decl :: evs).length + 1) th (.decl :: evs)
      = fromXmlReply .fixed k (evs.length + 1) th evs := by
    intro th; simp [fromXmlReply, RCfg.fixed]
  unfold readMessage phase2
  rw [h1, h2]

/-- and in front of a hello -/
theorem hello_decl_invariant (adv : Bool) (o : UriOracle) (evs : List Ev) :
    establish .fixed adv o (.decl :: evs) = establish .fixed adv o evs := by
  unfold establish
  have : fromXmlHello .fixed o ((Ev.decl :: evs).length + 1) none (.decl :: evs)
      = fromXmlHello .fixed o (evs.length + 1) none evs := by
    simp [fromXmlHello, RCfg.fixed]
  rw [this]

/-! ### whitespace around token-valued text -/

def allWs (l : List Char) : Prop := ∀ c ∈ l, isWs c = true

theorem trimStart_pad (w l : List Char) (hw : allWs w) : trimStart (w ++ l) = trimStart l := by
  induction w with
  | nil => rfl
  | cons c cs ih =>
    have hc : isWs c = true := hw c (by simp)
    simp only [trimStart, List.cons_append, List.dropWhile_cons, hc, if_true]
    exact ih (fun x hx => hw x (by simp [hx]))

theorem trimEnd_pad (l w : List Char) (hw : allWs w) : trimEnd (l ++ w) = trimEnd l := by
  unfold trimEnd
  rw [List.reverse_append]
  have : allWs w.reverse := fun c hc => hw c (by simpa using hc)
  have h := trimStart_pad w.reverse l.reverse this
  simp only [trimStart] at h
  rw [h]

theorem trimStart_allWs (w : List Char) (hw : allWs w) : trimStart w = [] := by
  induction w with
  | nil => rfl
  | cons c cs ih =>
    have hc : isWs c = true := hw c (by simp)
    simp only [trimStart, List.dropWhile_cons, hc, if_true]
    exact ih (fun x hx => hw x (by simp [hx]))

theorem trim_append_ws (l w : List Char) (hw : allWs w) : trimEnd (trimStart (l ++ w)) = trimEnd (trimStart l) := by
  induction l with
  | nil => rw [List.nil_append, trimStart_allWs w hw]; rfl
  | cons c cs ih =>
    by_cases hc : isWs c = true
    · have h1 : trimStart (c :: cs ++ w) = trimStart (cs ++ w) := by simp [trimStart, hc]
      have h2 : trimStart (c :: cs) = trimStart cs := by simp [trimStart, hc]
      rw [h1, h2, ih]
    · have h1 : trimStart (c :: cs ++ w) = (c :: cs) ++ w := by simp [trimStart, hc]
      have h2 : trimStart (c :: cs) = c :: cs := by simp [trimStart, hc]
      rw [h1, h2, trimEnd_pad _ _ hw]

/-- **Whitespace around a token makes no difference to a trimmed leaf**: for all texts and all
whitespace paddings (Rust `char::is_whitespace`). -/
theorem trim_pad_invariant (w₁ l w₂ : List Char) (h₁ : allWs w₁) (h₂ : allWs w₂) :
    trimL (w₁ ++ l ++ w₂) = trimL l := by
  unfold trimL
  rw [List.append_assoc, trimStart_pad _ _ h₁, trim_append_ws _ _ h₂]

/-- String-level corollary: the token a leaf is parsed from (current code) ignores padding. -/
theorem tok_pad_invariant (w₁ w₂ : List Char) (s : String) (h₁ : allWs w₁) (h₂ : allWs w₂) :
    RCfg.fixed.tok (String.ofList (w₁ ++ s.toList ++ w₂)) = RCfg.fixed.tok s := by
  simp only [RCfg.tok, RCfg.fixed, if_true, trim, String.toList_ofList, trim_pad_invariant _ _ _ h₁ h₂]

/-! ### the pinned snapshot, and what is still not invariant -/

theorem decl_pinned_cex : readMessage .pinned .bare (.decl :: replyDoc "rpc-reply" "1" [] []) = .err .unexpected
    ∧ readMessage .pinned .bare (replyDoc "rpc-reply" "1" [] []) = .ok := by decide

theorem pad_session_id_pinned_cex : parseSessionId (RCfg.pinned.tok "\n 7 ") = none ∧ parseSessionId (RCfg.fixed.tok "\n 7 ") = some 7 := by
  decide

/-- **Known finding**: the positive indication `<ok></ok>` (start + end instead of the empty-element
form) is rejected by the current code. -/
theorem empty_form_ok_cex :
    readMessage .fixed .empty (replyDoc "rpc-reply" "1" [] [.ok]) = .ok ∧
    readMessage .fixed .empty
      ([.start (replyTag "rpc-reply" "1" []), .start okTag, .end "ok", .end "rpc-reply", .eof]) = .err .unexpected := by
  decide

/-- **Known finding**: a bare reply written `<rpc-reply …/>` is rejected (only `Event::Start` is matched). -/
theorem empty_form_root_cex :
    readMessage .fixed .bare (replyDoc "rpc-reply" "1" [] []) = .ok ∧
    readMessage .fixed .bare [.empty (replyTag "rpc-reply" "1" []), .eof] = .err .unexpected := by
  decide

/-- **Known finding**: a comment inside a leaf's text changes the raw span the leaf is parsed from. -/
theorem comment_in_text_cex :
    parseSessionId (RCfg.fixed.tok "4711") = some 4711 ∧ parseSessionId (RCfg.fixed.tok "4711<!-- c -->") = none := by
  decide

/-! ### namespace-prefix choice: renaming of raw qualified names

Writing an element with another prefix for the same namespace URI (or with the default namespace
instead of a prefix) changes, in the event list, exactly the raw qualified names: `Tag.raw` of
`Start`/`Empty` events and the name of `End` events; the namespace resolution result, the local
name, the attributes and the source span stay. `renameEvs f` (Lemmas/Rename.lean) is that rewrite
for an arbitrary renaming `f`. Two different raw names of the original document must stay
different (`f` injective) — a prefix rewrite `p:local ↦ q:local` is.

Every reader is invariant, for **every event list** (not only documents of a grammar), every
configuration (pinned and repaired code) and every oracle. What stays tested only: that
quick-xml's namespace resolution maps a prefix rewrite of the source text to exactly such a
renaming of the event list. -/

/-- **The prefix chosen for element names makes no difference to a reply**: both parse phases,
the message-id cross-check and `into_result` give the same outcome — for every reply type, every
event list and every injective renaming of raw element names. -/
theorem reply_rename_invariant (f : String → String) (hf : ∀ a b, f a = f b → a = b)
    (c : RCfg) (k : ReplyKind) (evs : List Ev) :
    readMessage c k (renameEvs f evs) = readMessage c k evs :=
  readMessage_rename hf c k evs

/-- … nor to session establishment from the server's `<hello>` (for every URI oracle). -/
theorem hello_rename_invariant (f : String → String) (hf : ∀ a b, f a = f b → a = b)
    (c : RCfg) (adv : Bool) (o : UriOracle) (evs : List Ev) :
    establish c adv o (renameEvs f evs) = establish c adv o evs :=
  establish_rename hf c adv o evs

/-- … nor to the agent's reader of candidate policies (`agent::verif::read_candidates` on a whole
reply document), for every rpsl-parser and unescape oracle. -/
theorem candidates_rename_invariant (f : String → String) (hf : ∀ a b, f a = f b → a = b)
    (c : FCfg) (parseExpr unescape : String → Option String) (evs : List Ev) :
    readCandidatesDoc c parseExpr unescape (renameEvs f evs) = readCandidatesDoc c parseExpr unescape evs :=
  readCandidatesDoc_rename hf c parseExpr unescape evs

/-- the same for `Policies<Candidate>::read_xml` entered right after `<data>` (the entry point the
C16 theorems are stated on); the name of the `<data>` element is renamed too -/
theorem candidates_data_rename_invariant (f : String → String) (hf : ∀ a b, f a = f b → a = b)
    (c : FCfg) (parseExpr unescape : String → Option String) (dataRaw : String) (evs : List Ev) :
    readCandidates c parseExpr unescape (f dataRaw) (renameEvs f evs) = readCandidates c parseExpr unescape dataRaw evs :=
  readCandidates_rename hf c parseExpr unescape dataRaw evs

/-- … nor to the agent's reader of installed policies (`agent::verif::read_installed`), for every
unescape / prefix / prefix-length oracle. -/
theorem installed_rename_invariant (f : String → String) (hf : ∀ a b, f a = f b → a = b)
    (o : IOracle) (evs : List Ev) :
    readInstalledDoc o (renameEvs f evs) = readInstalledDoc o evs :=
  readInstalledDoc_rename hf o evs

/-- the same for `Policies<Installed>::read_xml` entered right after `<data>` -/
theorem installed_data_rename_invariant (f : String → String) (hf : ∀ a b, f a = f b → a = b)
    (o : IOracle) (dataRaw : String) (evs : List Ev) :
    readInstalledEv o (f dataRaw) (renameEvs f evs) = readInstalledEv o dataRaw evs :=
  readInstalledEv_rename hf o dataRaw evs

/-- Injectivity cannot be dropped for arbitrary event lists: a renaming that identifies two raw
names can make a stray end tag match (such a list is not the tokenisation of a well-formed
document: quick-xml checks end names). -/
theorem rename_noninjective_cex :
    readMessage .fixed .bare [.start (replyTag "rpc-reply" "1" []), .end "x", .eof] = .err .unexpected ∧
    readMessage .fixed .bare (renameEvs (fun _ => "x") [.start (replyTag "rpc-reply" "1" []), .end "x", .eof]) = .ok := by
  decide

/-- the renaming `local ↦ nc:local` (writing the base namespace with the prefix `nc` instead of as
the default namespace) -/
def ncPrefix (s : String) : String := "nc:" ++ s

theorem ncPrefix_injective : ∀ a b, ncPrefix a = ncPrefix b → a = b := by
  intro a b h
  simpa [ncPrefix] using h

/-- what `renameEvs ncPrefix` produces: the twin document with `nc:rpc-reply`, `nc:ok` -/
example :
    renameEvs ncPrefix (replyDoc "rpc-reply" "1" [] [.ok])
      = [.start (replyTag "nc:rpc-reply" "1" []), .empty { okTag with raw := "nc:ok" }, .end "nc:rpc-reply", .eof] := by
  decide

/-- non-vacuity: `<nc:rpc-reply message-id="1"><nc:ok/></nc:rpc-reply>` and its unprefixed twin both
read to `ok` -/
example :
    readMessage .fixed .empty
      [.start (replyTag "nc:rpc-reply" "1" []), .empty { okTag with raw := "nc:ok" }, .end "nc:rpc-reply", .eof] = .ok ∧
    readMessage .fixed .empty (replyDoc "rpc-reply" "1" [] [.ok]) = .ok := by
  decide

/-- non-vacuity through the theorem: a `<data>` reply and an `<rpc-error>` reply, prefixed by
`renameEvs ncPrefix`, read to the same non-error values as the unprefixed documents -/
example :
    readMessage .fixed .data (renameEvs ncPrefix (replyDoc "rpc-reply" "7" [] [.data "<a/>" [.empty (baseTag "a" none)]]))
      = .data "<a/>" := by
  rw [reply_rename_invariant ncPrefix ncPrefix_injective]; decide

example :
    readMessage .fixed .data (renameEvs ncPrefix (replyDoc "rpc-reply" "7" [] [.data "<a/>" [.empty (baseTag "a" none)]]))
      = .data "<a/>" := by
  decide

/-- non-vacuity, hello: `<nc:hello><nc:capabilities><nc:capability>…` establishes the same session -/
example :
    (establish .fixed false (fun _ => some { scheme := "urn", authority := none, path := "ietf:params:netconf:base:1.0", query := none, fragment := none })
      (renameEvs ncPrefix (helloDoc "hello" [] [.caps "capabilities" [.cap "urn:ietf:params:netconf:base:1.0" []], .sid "4711" []]))).toOption
      = some { sid := 4711, version := .v10, serverCaps := [.base10] } := by
  decide

/-- a reply carrying one annotated default-reject policy, all element names unprefixed -/
def exCandidateReply : List Ev :=
  let x (n : String) (attrs : List AttrItem) (sp : Option String) : Tag :=
    { ns := .bound XNM, lname := n, raw := n, attrs := attrs, span := sp }
  [.start (replyTag "rpc-reply" "1" []), .start (baseTag "data" none),
   .start (x "configuration" [] none), .start (x "policy-options" [] none),
   .start (x "policy-statement"
      [.ok { key := "jcmd:comment", ns := .bound JCMD, lname := "comment", value := some "/* bgpfu-fltr:AS-FOO */" }] none),
   .start (x "name" [] (some "fltr-foo")), .text "fltr-foo", .end "name",
   .start (x "then" [] none), .empty (x "reject" [] none), .end "then",
   .end "policy-statement", .end "policy-options", .end "configuration", .end "data", .end "rpc-reply", .eof]

/-- non-vacuity, agent: the prefixed twin (`nc:data`, `nc:configuration`, `nc:policy-statement`, …)
yields the same candidate -/
example :
    (readCandidatesDoc .fixed some some (renameEvs ncPrefix exCandidateReply)).toOption
      = some [("fltr-foo", .parsed "AS-FOO")] ∧
    (readCandidatesDoc .fixed some some exCandidateReply).toOption = some [("fltr-foo", .parsed "AS-FOO")] := by
  decide

/-! ### `Misc` around the root element: comments before `<rpc-reply>` / `<hello>` and after the end tag

XML allows `Misc*` (comments, white space, PIs) in the prolog and after the root element. White
space between markup never reaches the event list (`trim_text(true)`), so on the event level the
rewrite is: some `Comment` events in front of the list, and some between the root's `End` event and
the final `Eof`. Both are invisible to both parse phases — for **every event list**, every
configuration (pinned and repaired code) and every number of comments; the statements about the
grammar documents (`replyDocMisc`, `helloDocMisc`) are corollaries and need no well-formedness
hypothesis. Lemmas: `Lemmas/Misc.lean` (`*_mono`: more fuel, same result; `*_trail`: every reader
loop commutes with the insertion in front of the final `Eof`). -/

/-- **A comment in front of a reply makes no difference** — both parse phases, the message-id
cross-check and `into_result`; every configuration, every reply type, every event list. -/
theorem reply_leading_comment_invariant (c : RCfg) (k : ReplyKind) (evs : List Ev) :
    readMessage c k (.comment :: evs) = readMessage c k evs :=
  readMessage_lead c k 1 evs

/-- … nor do any number of them -/
theorem reply_leading_comments_invariant (c : RCfg) (k : ReplyKind) (n : Nat) (evs : List Ev) :
    readMessage c k (List.replicate n .comment ++ evs) = readMessage c k evs :=
  readMessage_lead c k n evs

/-- **A comment in front of the server's hello makes no difference to session establishment.** -/
theorem hello_leading_comment_invariant (c : RCfg) (adv : Bool) (o : UriOracle) (evs : List Ev) :
    establish c adv o (.comment :: evs) = establish c adv o evs :=
  establish_lead c adv o 1 evs

theorem hello_leading_comments_invariant (c : RCfg) (adv : Bool) (o : UriOracle) (n : Nat) (evs : List Ev) :
    establish c adv o (List.replicate n .comment ++ evs) = establish c adv o evs :=
  establish_lead c adv o n evs

/-- **Comments between the end of the message body and the end of input make no difference to a
reply** — for every event list `body ++ [Eof]` (in particular: whatever `body` is, well-formed
or not, complete or cut short), every number of comments, every configuration and reply type. -/
theorem reply_trailing_comments_invariant (c : RCfg) (k : ReplyKind) (n : Nat) (body : List Ev) :
    readMessage c k (body ++ List.replicate n .comment ++ [.eof]) = readMessage c k (body ++ [.eof]) := by
  rw [← trailMisc_append_eof]; exact readMessage_trail c k n _

/-- … nor to session establishment from the server's hello (every URI oracle). -/
theorem hello_trailing_comments_invariant (c : RCfg) (adv : Bool) (o : UriOracle) (n : Nat) (body : List Ev) :
    establish c adv o (body ++ List.replicate n .comment ++ [.eof]) = establish c adv o (body ++ [.eof]) := by
  rw [← trailMisc_append_eof]; exact establish_trail c adv o n _

/-- **`Misc` around `<rpc-reply>`**: every document of the reply grammar (no hypothesis on the
children: any `cs`, any attributes, any message-id text) reads the same with `pre` comments in
front of the root element and `post` comments between `</rpc-reply>` and the end of input. -/
theorem reply_misc_invariant (c : RCfg) (k : ReplyKind) (pre post : Nat) (raw idAttr : String)
    (extra : List AttrItem) (cs : List Top) :
    readMessage c k (replyDocMisc pre post raw idAttr extra cs) = readMessage c k (replyDoc raw idAttr extra cs) := by
  rw [replyDocMisc_eq, readMessage_lead, readMessage_trail]

/-- with the well-formedness hypotheses of the refinement theorem: the reader computes the
child-level semantics `replyAbs` on the document with `Misc`, too -/
theorem readMessage_docMisc (c : RCfg) (k : ReplyKind) (pre post : Nat) (raw idAttr : String) (extra : List AttrItem)
    (cs : List Top) (id : Nat) (hid : parseUsize idAttr = some id) (hwf : ∀ x ∈ cs, x.WF)
    (hin : Inert raw (cs.flatMap Top.render)) :
    readMessage c k (replyDocMisc pre post raw idAttr extra cs) = outcomeOf (replyAbs c k cs) := by
  rw [reply_misc_invariant, readMessage_doc c k raw idAttr extra cs id hid hwf hin]

/-- the "insert between `</rpc-reply>` and `Eof`" form of the same statement -/
theorem reply_doc_trailing_comments_invariant (c : RCfg) (k : ReplyKind) (n : Nat) (raw idAttr : String)
    (extra : List AttrItem) (cs : List Top) :
    readMessage c k ((replyDoc raw idAttr extra cs).dropLast ++ List.replicate n .comment ++ [.eof])
      = readMessage c k (replyDoc raw idAttr extra cs) := by
  have h : replyDoc raw idAttr extra cs
      = (.start (replyTag raw idAttr extra) :: (cs.flatMap Top.render ++ [.end raw])) ++ [.eof] := by
    simp [replyDoc, replyTag]
  rw [h, List.dropLast_concat, reply_trailing_comments_invariant]

/-- **`Misc` around `<hello>`**: every document of the hello grammar establishes the same session
(or fails with the same error) with comments in front of `<hello>` and after `</hello>`. -/
theorem hello_misc_invariant (c : RCfg) (adv : Bool) (o : UriOracle) (pre post : Nat) (raw : String)
    (attrs : List AttrItem) (cs : List HChild) :
    establish c adv o (helloDocMisc pre post raw attrs cs) = establish c adv o (helloDoc raw attrs cs) := by
  rw [helloDocMisc_eq, establish_lead, establish_trail]

/-- with the well-formedness hypothesis of the refinement theorem: `establishAbs` -/
theorem establish_docMisc (c : RCfg) (adv : Bool) (o : UriOracle) (pre post : Nat) (raw : String)
    (attrs : List AttrItem) (cs : List HChild) (hwf : ∀ x ∈ cs, x.WF) :
    establish c adv o (helloDocMisc pre post raw attrs cs) = establishAbs c adv o cs := by
  rw [hello_misc_invariant, establish_doc c adv o raw attrs cs hwf]

theorem hello_doc_trailing_comments_invariant (c : RCfg) (adv : Bool) (o : UriOracle) (n : Nat) (raw : String)
    (attrs : List AttrItem) (cs : List HChild) :
    establish c adv o ((helloDoc raw attrs cs).dropLast ++ List.replicate n .comment ++ [.eof])
      = establish c adv o (helloDoc raw attrs cs) := by
  have h : helloDoc raw attrs cs
      = (.start (helloTag raw attrs) :: (cs.flatMap HChild.render ++ [.end raw])) ++ [.eof] := by
    simp [helloDoc, helloTag]
  rw [h, List.dropLast_concat, hello_trailing_comments_invariant]

/-- what `replyDocMisc 1 2` produces for `<rpc-reply message-id="1"><ok/></rpc-reply>` -/
example :
    replyDocMisc 1 2 "rpc-reply" "1" [] [.ok]
      = [.comment, .start (replyTag "rpc-reply" "1" []), .empty okTag, .end "rpc-reply", .comment, .comment, .eof] := by
  decide

/-- non-vacuity: `<rpc-reply message-id="1"><ok/></rpc-reply><!-- a --><!-- b -->` reads to `ok`,
with and without a comment in front, in the pinned and in the current code -/
example :
    readMessage .fixed .empty
      [.start (replyTag "rpc-reply" "1" []), .empty okTag, .end "rpc-reply", .comment, .comment, .eof] = .ok ∧
    readMessage .pinned .empty
      [.comment, .start (replyTag "rpc-reply" "1" []), .empty okTag, .end "rpc-reply", .comment, .comment, .eof] = .ok ∧
    readMessage .fixed .empty (replyDoc "rpc-reply" "1" [] [.ok]) = .ok := by
  decide

/-- non-vacuity through the theorem: a `<data>` reply with `Misc` on both sides -/
example :
    readMessage .fixed .data (replyDocMisc 3 2 "rpc-reply" "7" [] [.data "<a/>" [.empty (baseTag "a" none)]]) = .data "<a/>" := by
  rw [reply_misc_invariant]; decide

/-- non-vacuity, hello: `<hello>…</hello><!-- c -->` establishes the session -/
example :
    (establish .fixed false (fun _ => some { scheme := "urn", authority := none, path := "ietf:params:netconf:base:1.0", query := none, fragment := none })
      [.start (helloTag "hello" []), .start { ns := .bound BASE, lname := "capabilities", raw := "capabilities", attrs := [], span := none },
       .start (baseTag "capability" (some "urn:ietf:params:netconf:base:1.0")), .end "capability", .end "capabilities",
       .start (baseTag "session-id" (some "4711")), .end "session-id", .end "hello", .comment, .eof]).toOption
      = some { sid := 4711, version := .v10, serverCaps := [.base10] } ∧
    helloDocMisc 0 1 "hello" [] [.caps "capabilities" [.cap "urn:ietf:params:netconf:base:1.0" []], .sid "4711" []]
      = [.start (helloTag "hello" []), .start { ns := .bound BASE, lname := "capabilities", raw := "capabilities", attrs := [], span := none },
         .start (baseTag "capability" (some "urn:ietf:params:netconf:base:1.0")), .end "capability", .end "capabilities",
         .start (baseTag "session-id" (some "4711")), .end "session-id", .end "hello", .comment, .eof] := by
  decide

/-- scope of the statements above: comments only. A processing instruction after the root element
is not an equivalent rewrite (PIs are part of the infoset) and the current code rejects it
(`Event::PI` falls into the catch-all arm of `from_xml`). -/
theorem trailing_pi_cex :
    readMessage .fixed .empty
      [.start (replyTag "rpc-reply" "1" []), .empty okTag, .end "rpc-reply", .pi, .eof] = .err .unexpected := by
  decide

end Xml
