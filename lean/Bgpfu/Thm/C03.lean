import Bgpfu.Lemmas.Policy
/-!
# C03 — unobtainable prefix data never removes or empties a managed policy

Property theorems only.  `failed_eval_untouched` and `delete_only_unmanaged` hold for every variant
of the code and every configuration (no well-formedness needed). The annotation part
(`malformed_annotation_untouched`, `delete_only_unmarked`) holds for the repaired candidate reader
(`keepMalformed`); for the pinned reader it is false (`malformed_annotation_pinned_cex`, defect D10).
The resolver part of the property ("an unknown as-set makes the evaluation fail rather than yield
the empty set") is about `lib/src/query.rs` and lives with the IRR model, not here: in this file a
failed evaluation is `oracle e = none`.
-/
namespace Policy

/-- **Failed evaluation ⇒ no update and no delete.** -/
theorem failed_eval_no_update {ev : List (Str × Evaluated)} (inst : List (Str × Installed)) {n e : Str}
    (h : alGet n ev = some ⟨e, none⟩) : ∀ u ∈ compare ev inst, u.name ≠ n := by
  intro u hu hname
  have := (mem_compare.1 hu).2
  rw [hname, compareOne_failed h] at this
  cases this

/-- **… and the installed policy stays as it was**, for every variant of the code, every
configuration, and every order in which the updates are loaded: if the run succeeds at all, the
policy of a candidate whose evaluation failed is literally unchanged. -/
theorem failed_eval_untouched (c : Cfg) {cfg cfg' : JCfg} {ev : List (Str × Evaluated)}
    (inst : List (Str × Installed)) {n e : Str}
    (h : alGet n ev = some ⟨e, none⟩) (us : List Update) (hp : us.Perm (compare ev inst))
    (hr : applyAll cfg (us.map (render c)) = .ok cfg') : alGet n cfg' = alGet n cfg := by
  apply applyAll_frame _ _ _ _ hr
  rw [map_render_names]
  intro hin
  obtain ⟨u, hu, hname⟩ := List.mem_map.1 hin
  exact failed_eval_no_update inst h u (hp.mem_iff.1 hu) hname

/-- the agent's own run as an instance -/
theorem failed_eval_untouched_run (c : Cfg) {cfg cfg' : JCfg} {ev : List (Str × Evaluated)} {n e : Str}
    (h : alGet n ev = some ⟨e, none⟩) (hr : run c cfg ev = .ok cfg') : alGet n cfg' = alGet n cfg := by
  unfold run plan at hr
  cases hi : readInstalled c cfg with
  | error x => simp [hi] at hr
  | ok inst =>
    simp only [hi] at hr
    exact failed_eval_untouched c inst h _ (List.Perm.refl _) hr

/-- **Deletes only for installed policies that are not candidates.** -/
theorem delete_only_unmanaged {ev : List (Str × Evaluated)} {inst : List (Str × Installed)} {n : Str}
    (h : Update.delete n ∈ compare ev inst) : n ∉ keys ev ∧ n ∈ keys inst := by
  have hc := (mem_compare.1 h).2
  simp only [Update.name] at hc
  obtain ⟨_, h1, i, h2⟩ := compareOne_delete_inv hc
  exact ⟨(alGet_eq_none_iff _ _).1 h1, (alGet_isSome_iff _ _).1 (by simp [h2])⟩

/-- **Malformed annotation ⇒ untouched** (repaired candidate reader). A statement that is still
marked as managed (active, annotated, default reject) but whose `bgpfu-fltr:` expression does not
parse gets neither an update nor a delete, whatever is installed and whatever the IRR says. -/
theorem malformed_annotation_untouched {running : List RStmt} {cands : List (Str × Option Str)}
    (hc : candidates .fixed running = .ok cands) (oracle : Str → Option (List Range × List Range))
    (inst : List (Str × Installed)) {s : RStmt} (hs : s ∈ running) (hm : s.marked = true)
    (hmal : s.ann = .malformed) :
    ∀ u ∈ compare (evaluateAll oracle cands) inst, u.name ≠ s.name := by
  obtain ⟨x, hx, h1, _⟩ := marked_is_candidate hc hs hm
  have := h1 hmal
  subst this
  apply failed_eval_no_update inst (e := [])
  rw [alGet_evaluateAll, hx]
  rfl

/-- the same for a marked statement whose (well-formed) expression could not be evaluated:
unknown as-set, IRR error response, IRR unreachable — all arrive here as `oracle e = none` -/
theorem unevaluable_annotation_untouched {running : List RStmt} {cands : List (Str × Option Str)}
    (hc : candidates .fixed running = .ok cands) (oracle : Str → Option (List Range × List Range))
    (inst : List (Str × Installed)) {s : RStmt} (hs : s ∈ running) (hm : s.marked = true)
    {e : Str} (hp : s.ann = .parsed e) (hfail : oracle e = none) :
    ∀ u ∈ compare (evaluateAll oracle cands) inst, u.name ≠ s.name := by
  obtain ⟨x, hx, _, h2⟩ := marked_is_candidate hc hs hm
  have := h2 e hp
  subst this
  apply failed_eval_no_update inst (e := e)
  rw [alGet_evaluateAll, hx]
  simp [hfail]

/-- **Deletes are sent only for installed policies that are no longer marked as managed**
(repaired candidate reader). -/
theorem delete_only_unmarked {running : List RStmt} {cands : List (Str × Option Str)}
    (hc : candidates .fixed running = .ok cands) (oracle : Str → Option (List Range × List Range))
    (inst : List (Str × Installed)) {n : Str}
    (h : Update.delete n ∈ compare (evaluateAll oracle cands) inst) :
    n ∈ keys inst ∧ ∀ s ∈ running, s.marked = true → s.name ≠ n := by
  obtain ⟨h1, h2⟩ := delete_only_unmanaged h
  refine ⟨h2, fun s hs hm hname => h1 ?_⟩
  obtain ⟨x, hx, _⟩ := marked_is_candidate hc hs hm
  rw [← hname]
  apply (alGet_isSome_iff _ _).1
  rw [alGet_evaluateAll, hx]
  rfl

/-- whole pipeline, state level: after a successful run of the repaired code the installed policy of
every marked statement without obtainable prefix data is literally what it was -/
theorem unobtainable_untouched_run {running : List RStmt} (oracle : Str → Option (List Range × List Range))
    {cfg cfg' : JCfg} {ps : List PStmt} (hp : planFrom .fixed running oracle cfg = .ok ps)
    (hr : applyAll cfg ps = .ok cfg') {s : RStmt} (hs : s ∈ running) (hm : s.marked = true)
    (hbad : s.ann = .malformed ∨ ∃ e, s.ann = .parsed e ∧ oracle e = none) :
    alGet s.name cfg' = alGet s.name cfg := by
  unfold planFrom at hp
  cases hc : candidates .fixed running with
  | error x => simp [hc] at hp
  | ok cands =>
    simp only [hc] at hp
    unfold plan at hp
    cases hi : readInstalled .fixed cfg with
    | error x => simp [hi] at hp
    | ok inst =>
      simp only [hi, Except.ok.injEq] at hp
      subst hp
      apply applyAll_frame _ _ _ _ hr
      rw [map_render_names]
      intro hin
      obtain ⟨u, hu, hname⟩ := List.mem_map.1 hin
      rcases hbad with h | ⟨e, h1, h2⟩
      · exact malformed_annotation_untouched hc oracle inst hs hm h u hu hname
      · exact unevaluable_annotation_untouched hc oracle inst hs hm h1 h2 u hu hname

/-! ### Non-vacuity and the pinned code (defect D10) -/

def c3P1 : Str := [112, 49]
def c3P2 : Str := [112, 50]
def c3A : Range := ⟨false, 3221225984, 24, 24, 32⟩
def c3B : Range := ⟨false, 167772160, 8, 16, 24⟩

/-- `p1` installed with one IPv4 range, `p2` installed IPv4-only (one family empty) -/
def c3Cfg : JCfg :=
  [(c3P1, ⟨none, [(inet, ⟨some inet, [c3A], true⟩)], true⟩),
   (c3P2, ⟨none, [(inet, ⟨some inet, [c3B], true⟩)], true⟩)]

/-- `p1` still marked but its annotation no longer parses; `p2` fine and re-evaluated -/
def c3Running : List RStmt := [⟨c3P1, .malformed, true, true⟩, ⟨c3P2, .parsed [66], true, true⟩]

def c3Oracle (e : Str) : Option (List Range × List Range) := if e = [66] then some ([c3A], []) else none

/-- repaired reader: one update (for `p2`), nothing for `p1`, and `p1` is unchanged afterwards -/
example :
    (match planFrom .fixed c3Running c3Oracle c3Cfg with
     | .ok ps => (ps.map (·.name) == [c3P2]) &&
         (match applyAll c3Cfg ps with
          | .ok c' => alGet c3P1 c' == alGet c3P1 c3Cfg && agentState c'
          | .error _ => false)
     | .error _ => false) = true := by decide

/-- **D10.** The pinned candidate reader drops the statement with the malformed annotation, so the
still-managed, installed policy `p1` is deleted. -/
theorem malformed_annotation_pinned_cex :
    (match planFrom { Cfg.fixed with keepMalformed := false } c3Running c3Oracle c3Cfg with
     | .ok ps => ps.any (fun p => p.del && p.name == c3P1) &&
         (match applyAll c3Cfg ps with
          | .ok c' => (alGet c3P1 c').isNone
          | .error _ => false)
     | .error _ => false) = true := by decide

end Policy
