import Bgpfu.Lemmas.Run
/-!
# C17 — evaluations are independent of what was evaluated before on the connection

`evaluate cfg db fuel e faults : Ev → Outcome PSet × Ev × List Event` is the model of
`RpslEvaluator::evaluate` (lib/src/query.rs) over irrc's pipeline; `faults` are the `D`/`E`/`F`
answers the server injects during this evaluation (by query index or by query).  The theorems hold
for both `Cfg.pinned` (the code as it is) and `Cfg.fixed`, for every database, every expression
(supported or not), every fault set and every history.  Helper lemmas: `Bgpfu.Lemmas.Irr`, `.Run`.
-/
namespace Irr
open Rpsl

/-- **connection invariant**: after every `evaluate` — successful, failed with an IRRd error at any
query, panicked in an unsupported construct — the evaluator holds its connection again and no
response is outstanding on it. -/
theorem conn_invariant (cfg : Cfg) (db : Db) (fuel : Nat) (e : Expr) (faults : Faults) (st : Ev)
    (hst : Clean st) :
    ∃ c, (evaluate cfg db fuel e faults st).2.1.conn = some c ∧ c.unread = [] :=
  (evaluate_inv cfg db fuel e faults st hst).1

/-- the invariant holds after every history on a new evaluator -/
theorem conn_invariant_seq (cfg : Cfg) (db : Db) (fuel : Nat) (h : List (Expr × Faults)) :
    ∃ c, (evalSeq cfg db fuel h Ev.fresh).2.conn = some c ∧ c.unread = [] :=
  evalSeq_clean cfg db fuel h Ev.fresh fresh_clean

/-- **history independence**: for every history `h` of evaluations (each with its own injected
faults) and every expression `e` with faults `f`, evaluating `e` after `h` on the same evaluator
gives the same outcome, the same queries and the same consumed responses as evaluating it on a fresh
evaluator. -/
theorem history_independent (cfg : Cfg) (db : Db) (fuel : Nat) (h : List (Expr × Faults))
    (e : Expr) (f : Faults) :
    evaluate cfg db fuel e f (evalSeq cfg db fuel h Ev.fresh).2 = evaluate cfg db fuel e f Ev.fresh :=
  evaluate_clean_eq_fresh cfg db fuel e f _ (evalSeq_clean cfg db fuel h Ev.fresh fresh_clean)

/-- **attribution**: every response the client consumes during an evaluation is attributed to the
query the server answered with it, and the consumed (query, response) pairs are exactly the sent
ones, in order, each once: the i-th response consumed is the response to the i-th query written. -/
theorem responses_attributed (cfg : Cfg) (db : Db) (fuel : Nat) (e : Expr) (faults : Faults) (st : Ev)
    (hst : Clean st) :
    Attributed (evaluate cfg db fuel e faults st).2.2 ∧
      recvs (evaluate cfg db fuel e faults st).2.2 = sents (evaluate cfg db fuel e faults st).2.2 :=
  (evaluate_inv cfg db fuel e faults st hst).2

/-- the evaluator remains usable after a failed evaluation: whatever the outcome of `e₁`, the next
evaluation behaves as on a fresh evaluator (never `AcquireConnection`, never a stale response). -/
theorem usable_after_failure (cfg : Cfg) (db : Db) (fuel : Nat) (e₁ e₂ : Expr) (f₁ f₂ : Faults) :
    evaluate cfg db fuel e₂ f₂ (evaluate cfg db fuel e₁ f₁ Ev.fresh).2.1 =
      evaluate cfg db fuel e₂ f₂ Ev.fresh :=
  evaluate_clean_eq_fresh cfg db fuel e₂ f₂ _ (evaluate_inv cfg db fuel e₁ f₁ Ev.fresh fresh_clean).1

/-! ### Non-vacuity: a small cyclic database, a failing and a succeeding evaluation -/

/-- `AS-A = {AS1, AS-B}`, `AS-B = {AS2, AS-A}` (cyclic), AS1 → 10.0.0.0/8 + 2001:db8::/32, AS2 → 192.0.2.0/24 -/
def exDb : Db :=
  { emptyIsD := true
    asSets := [("AS-A", [.leaf 1, .set "AS-B"]), ("AS-B", [.leaf 2, .set "AS-A"])]
    routeSets := [("RS-X", [.leaf (.pfx ⟨.v4, 10, 8⟩ .lessIncl)])]
    routes := [(1, [⟨.v4, 10, 8⟩, ⟨.v6, 0x20010db8, 32⟩]), (2, [⟨.v4, 0xc00002, 24⟩])]
    filterSets := [("FLTR-F", [{ mpFilter := some (.prefixSet (.named (.asSet "AS-A")) .none) }])] }

def exAsA : Expr := .prefixSet (.named (.asSet "AS-A")) .none

def okAt (o : Outcome PSet) (q : Pfx) : Bool :=
  match o with
  | .ok s => s q
  | _ => false

def isErr (o : Outcome PSet) (k : ErrKind) : Bool :=
  match o with
  | .err e => e == k
  | _ => false

/-- the first evaluation fails (`F` injected for the third query), five queries were written and
all five answers consumed; the second, on the same evaluator, succeeds and contains 192.0.2.0/24 -/
example :
    let r₁ := evaluate .pinned exDb 2 exAsA [(.idx 0, .other)] Ev.fresh
    let r₂ := evaluate .pinned exDb 2 exAsA [(.idx 2, .keyNotFound)] r₁.2.1
    isErr r₁.1 .other = true ∧ (sents r₁.2.2).length = 1 ∧
      okAt r₂.1 ⟨.v4, 0xc00002, 24⟩ = true ∧ okAt r₂.1 ⟨.v6, 0x20010db8, 32⟩ = false ∧
      (sents r₂.2.2).length = 5 ∧ (recvs r₂.2.2).length = 5 := by decide

end Irr
