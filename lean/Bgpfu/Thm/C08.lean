import Bgpfu.Lemmas.Readers
import Bgpfu.Lemmas.ReplyAbs
/-!
# C08 — a reply carrying an error is never reported as success

The theorems quantify over **all documents of the reply grammar** (`Bgpfu.Spec.ReplyGrammar`):
any number, order and severity of `rpc-error` children (with optional app-tag / message leaves
and arbitrary inert content inside the leaves), `<ok/>`, `<data>`, comments, and
`<load-configuration-results>` with its own children, in any arrangement; any qualified names;
any further attributes on `<rpc-reply>`. `readMessage .fixed k` is the whole path a reply future
takes in /repo now: parse phase 1, phase 2, message-id cross-check, `into_result`
(`RCfg.pinned` is the pinned snapshot).
-/
namespace Xml

/-- hypotheses shared by all statements: the document is an instance of the grammar -/
structure GoodDoc (raw idAttr : String) (cs : List Top) (id : Nat) : Prop where
  id : parseUsize idAttr = some id
  wf : ∀ x ∈ cs, x.WF
  inert : Inert raw (cs.flatMap Top.render)

/-- is there an `rpc-error` of severity `error` anywhere the grammar allows one -/
def errorSeverityInReply (cs : List Top) : Bool :=
  cs.any fun
    | .err e => e.sev == .error
    | .results _ ics => ics.any Inner.isErrorSeverity
    | _ => false

/-- the positive indication defined for each reply type -/
def positiveIndication : ReplyKind → List Top → Prop
  | .empty, cs => Top.ok ∈ cs
  | .data, cs => ∃ s i, Top.data s i ∈ cs
  | .bare, _ => True
  | .load, cs => hasOkResults cs

/-- the rpc-errors of a reply, in document order, as the reader of kind `k` reports them -/
def reportedErrors : ReplyKind → List Top → List RpcError
  | .load, cs => innerErrs cs
  | _, cs => cs.filterMap Top.errValue?

def Outcome.isSuccess : Outcome → Bool
  | .ok => true
  | .data _ => true
  | _ => false

/-- **Refinement** (restated from `readMessage_doc`): on every grammar document the event-level
reader computes exactly the child-level semantics. -/
theorem reply_refines (c : RCfg) (k : ReplyKind) (raw idAttr : String) (extra : List AttrItem)
    (cs : List Top) (id : Nat) (g : GoodDoc raw idAttr cs id) :
    readMessage c k (replyDoc raw idAttr extra cs) = outcomeOf (replyAbs c k cs) :=
  readMessage_doc c k raw idAttr extra cs id g.id g.wf g.inert

theorem hasErrorSeverity_false_iff (es : List RpcError) :
    hasErrorSeverity es = false ↔ ∀ e ∈ es, e.severity ≠ .error := by
  simp [hasErrorSeverity]

theorem errorSeverity_of_top (cs : List Top) (h1 : ∀ c ∈ cs, c.errValue? = none)
    (h2 : ∀ c ∈ cs, c.isResults = false) : errorSeverityInReply cs = false := by
  simp only [errorSeverityInReply, List.any_eq_false]
  intro c hc
  cases c with
  | err e => have := h1 _ hc; simp [Top.errValue?] at this
  | results r i => have := h2 _ hc; simp [Top.isResults] at this
  | _ => simp

/-- **C08, part 1**: a reply that contains an `rpc-error` of severity `error` — as a child of
`rpc-reply` or inside `load-configuration-results` — is never turned into a successful result,
for every reply type. -/
theorem success_no_error_severity (k : ReplyKind) (raw idAttr : String) (extra : List AttrItem)
    (cs : List Top) (id : Nat) (g : GoodDoc raw idAttr cs id)
    (h : (readMessage .fixed k (replyDoc raw idAttr extra cs)).isSuccess = true) :
    errorSeverityInReply cs = false := by
  rw [reply_refines .fixed k raw idAttr extra cs id g] at h
  cases k with
  | empty =>
    simp only [replyAbs] at h
    cases hr : emptyAbs false [] cs with
    | error e => simp [hr, outcomeOf, Outcome.isSuccess] at h
    | ok b =>
      cases b with
      | ok => exact errorSeverity_of_top cs (emptyAbs_ok _ _ _ hr).1 (emptyAbs_no_results _ _ _ _ hr)
      | data s => exact absurd hr (by
          intro hr
          have : ∀ (th : Bool) (es : List RpcError) (cs : List Top), emptyAbs th es cs ≠ .ok (.data s) := by
            intro th es cs
            induction cs generalizing th es with
            | nil => simp only [emptyAbs]; cases th <;> simp; split <;> simp
            | cons c cs ih =>
              cases c <;> simp only [emptyAbs] <;> try simp
              · split
                · exact ih _ _
                · simp
              · split
                · exact ih _ _
                · simp
              · exact ih _ _
          exact this _ _ _ hr)
      | errs es => simp [hr, outcomeOf, Body.intoResult, Outcome.isSuccess] at h
  | data =>
    simp only [replyAbs] at h
    cases hr : dataAbs none [] cs with
    | error e => simp [hr, outcomeOf, Outcome.isSuccess] at h
    | ok b =>
      cases b with
      | ok => exact absurd hr (dataAbs_not_ok _ _ _)
      | data s => exact errorSeverity_of_top cs (dataAbs_data _ _ _ _ hr).1 (dataAbs_no_results _ _ _ _ hr)
      | errs es => simp [hr, outcomeOf, Body.intoResult, Outcome.isSuccess] at h
  | bare =>
    simp only [replyAbs] at h
    cases hr : bareAbs [] cs with
    | error e => simp [hr, outcomeOf, Outcome.isSuccess] at h
    | ok b =>
      cases b with
      | ok => exact errorSeverity_of_top cs (bareAbs_ok _ _ hr).2 (bareAbs_no_results _ _ _ hr)
      | data s =>
        exfalso
        have : ∀ (es : List RpcError) (cs : List Top), bareAbs es cs ≠ .ok (.data s) := by
          intro es cs
          induction cs generalizing es with
          | nil => simp only [bareAbs]; split <;> simp
          | cons c cs ih => cases c <;> simp only [bareAbs] <;> first | exact ih _ | simp
        exact this _ _ hr
      | errs es => simp [hr, outcomeOf, Body.intoResult, Outcome.isSuccess] at h
  | load =>
    simp only [replyAbs] at h
    cases hr : loadAbs .fixed {} cs with
    | error e => simp [hr, outcomeOf, Outcome.isSuccess] at h
    | ok b =>
      cases b with
      | ok =>
        have h3 := loadAbs_ok {} cs rfl hr
        have hsev : ∀ e ∈ innerErrs cs, e.severity ≠ .error := by
          have := h3.1
          simp only [List.nil_append] at this
          exact (hasErrorSeverity_false_iff _).mp this
        simp only [errorSeverityInReply, List.any_eq_false]
        intro c hc
        cases c with
        | err e => have := h3.2.2 _ hc; simp [Top.errValue?] at this
        | results r ics =>
          simp only [List.any_eq_true, not_exists, not_and]
          intro x hx hsx
          cases x with
          | err e =>
            have hmem : e.value ∈ innerErrs cs := by
              simp only [innerErrs, List.mem_flatMap]
              exact ⟨.results r ics, hc, by
                simp only [List.mem_filterMap]
                exact ⟨.err e, hx, rfl⟩⟩
            have := hsev _ hmem
            simp [Inner.isErrorSeverity] at hsx
            simp [ErrSpec.value, hsx] at this
          | _ => simp [Inner.isErrorSeverity] at hsx
        | _ => simp
      | data s =>
        exfalso
        have : ∀ (st : LoadSt) (cs : List Top), loadAbs .fixed st cs ≠ .ok (.data s) := by
          intro st cs
          induction cs generalizing st with
          | nil => simp only [loadAbs]; split <;> (try split) <;> (try split) <;> simp
          | cons c cs ih =>
            cases c <;> simp only [loadAbs] <;> try simp
            · exact ih _
            · split
              · split
                · exact ih _
                · simp
              · simp
        exact this _ _ hr
      | errs es => simp [hr, outcomeOf, Body.intoResult, Outcome.isSuccess] at h

/-- **C08, part 2**: success is reported only for a reply that carries the positive indication
defined for the operation. -/
theorem success_has_positive_indication (k : ReplyKind) (raw idAttr : String) (extra : List AttrItem)
    (cs : List Top) (id : Nat) (g : GoodDoc raw idAttr cs id)
    (h : (readMessage .fixed k (replyDoc raw idAttr extra cs)).isSuccess = true) :
    positiveIndication k cs := by
  rw [reply_refines .fixed k raw idAttr extra cs id g] at h
  cases k with
  | empty =>
    simp only [replyAbs] at h
    cases hr : emptyAbs false [] cs with
    | error e => simp [hr, outcomeOf, Outcome.isSuccess] at h
    | ok b =>
      cases b with
      | ok =>
        rcases (emptyAbs_ok _ _ _ hr).2 with h1 | ⟨_, h2⟩
        · cases h1
        · exact h2
      | data s =>
        have hs := success_no_error_severity .empty raw idAttr extra cs id g
        simp [reply_refines .fixed .empty raw idAttr extra cs id g, replyAbs, hr, outcomeOf,
          Body.intoResult, Outcome.isSuccess] at hs
        -- `emptyAbs` never yields data; reuse the fact proved inside part 1 through its conclusion
        exact absurd hr (by
          have : ∀ (th : Bool) (es : List RpcError) (cs : List Top), emptyAbs th es cs ≠ .ok (.data s) := by
            intro th es cs
            induction cs generalizing th es with
            | nil => simp only [emptyAbs]; cases th <;> simp; split <;> simp
            | cons c cs ih =>
              cases c <;> simp only [emptyAbs] <;> try simp
              · split
                · exact ih _ _
                · simp
              · split
                · exact ih _ _
                · simp
              · exact ih _ _
          exact this _ _ _)
      | errs es => simp [hr, outcomeOf, Body.intoResult, Outcome.isSuccess] at h
  | data =>
    simp only [replyAbs] at h
    cases hr : dataAbs none [] cs with
    | error e => simp [hr, outcomeOf, Outcome.isSuccess] at h
    | ok b =>
      cases b with
      | ok => exact absurd hr (dataAbs_not_ok _ _ _)
      | data s =>
        rcases (dataAbs_data _ _ _ _ hr).2 with h1 | ⟨_, _, i, h3⟩
        · cases h1
        · exact ⟨s, i, h3⟩
      | errs es => simp [hr, outcomeOf, Body.intoResult, Outcome.isSuccess] at h
  | bare => trivial
  | load =>
    simp only [replyAbs] at h
    cases hr : loadAbs .fixed {} cs with
    | error e => simp [hr, outcomeOf, Outcome.isSuccess] at h
    | ok b =>
      cases b with
      | ok => exact (loadAbs_ok {} cs rfl hr).2.1
      | data s =>
        exfalso
        have : ∀ (st : LoadSt) (cs : List Top), loadAbs .fixed st cs ≠ .ok (.data s) := by
          intro st cs
          induction cs generalizing st with
          | nil => simp only [loadAbs]; split <;> (try split) <;> (try split) <;> simp
          | cons c cs ih =>
            cases c <;> simp only [loadAbs] <;> try simp
            · exact ih _
            · split
              · split
                · exact ih _
                · simp
              · simp
        exact this _ _ hr
      | errs es => simp [hr, outcomeOf, Body.intoResult, Outcome.isSuccess] at h

/-- **C08, part 3**: when the library reports server errors they are exactly the `rpc-error`s of
that reply, in document order (and there is at least one). -/
theorem reported_errors_exact (k : ReplyKind) (raw idAttr : String) (extra : List AttrItem)
    (cs : List Top) (id : Nat) (g : GoodDoc raw idAttr cs id) (es : List RpcError)
    (h : readMessage .fixed k (replyDoc raw idAttr extra cs) = .rpcError es) :
    es = reportedErrors k cs := by
  rw [reply_refines .fixed k raw idAttr extra cs id g] at h
  cases k with
  | empty =>
    simp only [replyAbs] at h
    cases hr : emptyAbs false [] cs with
    | error e => simp [hr, outcomeOf] at h
    | ok b =>
      cases b with
      | errs es' =>
        simp only [hr, outcomeOf, Body.intoResult, Outcome.rpcError.injEq] at h
        subst h
        simpa [reportedErrors] using (emptyAbs_errs _ _ _ _ hr).1
      | ok => simp [hr, outcomeOf, Body.intoResult] at h
      | data s => simp [hr, outcomeOf, Body.intoResult] at h
  | data =>
    simp only [replyAbs] at h
    cases hr : dataAbs none [] cs with
    | error e => simp [hr, outcomeOf] at h
    | ok b =>
      cases b with
      | errs es' =>
        simp only [hr, outcomeOf, Body.intoResult, Outcome.rpcError.injEq] at h
        subst h
        simpa [reportedErrors] using (dataAbs_errs _ _ _ _ hr).1
      | ok => simp [hr, outcomeOf, Body.intoResult] at h
      | data s => simp [hr, outcomeOf, Body.intoResult] at h
  | bare =>
    simp only [replyAbs] at h
    cases hr : bareAbs [] cs with
    | error e => simp [hr, outcomeOf] at h
    | ok b =>
      cases b with
      | errs es' =>
        simp only [hr, outcomeOf, Body.intoResult, Outcome.rpcError.injEq] at h
        subst h
        simpa [reportedErrors] using (bareAbs_errs _ _ _ hr).1
      | ok => simp [hr, outcomeOf, Body.intoResult] at h
      | data s => simp [hr, outcomeOf, Body.intoResult] at h
  | load =>
    simp only [replyAbs] at h
    cases hr : loadAbs .fixed {} cs with
    | error e => simp [hr, outcomeOf] at h
    | ok b =>
      cases b with
      | errs es' =>
        simp only [hr, outcomeOf, Body.intoResult, Outcome.rpcError.injEq] at h
        subst h
        simpa [reportedErrors] using (loadAbs_errs _ _ _ _ hr).1
      | ok => simp [hr, outcomeOf, Body.intoResult] at h
      | data s => simp [hr, outcomeOf, Body.intoResult] at h

/-! ### Non-vacuity and the pinned snapshot -/

/-- a concrete `rpc-error` of severity `error` with padded leaves and a comment inside a leaf -/
def exErr : ErrSpec :=
  { ty := .protocol, tySpan := "protocol", tyInner := [.text "protocol"],
    tag := "operation-failed", tagSpan := " operation-failed\n", tagInner := [.text "operation-failed"],
    sev := .error, sevSpan := "error", sevInner := [.comment, .text "error"],
    message := some ("\n statement creation failed\n", [.text "statement creation failed"]),
    appTag := none, raw := "rpc-error" }

def exWarn : ErrSpec := { exErr with sev := .warning, sevSpan := "warning", sevInner := [.text "warning"] }

theorem exErr_wf : exErr.WF := by
  constructor <;> first | decide | (intro p hp; simp [exErr] at hp; subst hp; decide)
theorem exWarn_wf : exWarn.WF := by
  constructor <;> first | decide | (intro p hp; simp [exWarn, exErr] at hp; subst hp; decide)

/-- the hypotheses of the theorems are satisfiable by a document mixing everything -/
example : GoodDoc "rpc-reply" "101" [.comment, .results "load-configuration-results" [.err exWarn, .comment, .ok]] 101 :=
  ⟨by decide, by
    intro x hx
    simp only [List.mem_cons, List.not_mem_nil, or_false] at hx
    rcases hx with rfl | rfl
    · trivial
    · intro y hy
      simp only [List.mem_cons, List.not_mem_nil, or_false] at hy
      rcases hy with rfl | rfl | rfl
      · exact exWarn_wf
      · trivial
      · trivial,
   by decide⟩

/-- warnings followed by `<ok/>` (what Junos sends) are still a success … -/
example : readMessage .fixed .load
    (replyDoc "rpc-reply" "101" [] [.results "load-configuration-results" [.err exWarn, .ok]]) = .ok := by decide

/-- … an error followed by `<ok/>` is not … -/
example : readMessage .fixed .load
    (replyDoc "rpc-reply" "101" [] [.results "load-configuration-results" [.err exErr, .ok]]) = .err .unexpected := by decide

/-- … and errors with a matching `load-error-count` are reported, in order. -/
example : readMessage .fixed .load
    (replyDoc "rpc-reply" "101" [] [.results "load-configuration-results"
      [.err exErr, .err exWarn, .count "2" [.text "2"]]]) = .rpcError [exErr.value, exWarn.value] := by decide

/-- **Defect D5 of the pinned snapshot**: `<rpc-error>…error…</rpc-error><ok/>` inside
`<load-configuration-results>` resolved to success. -/
theorem load_ok_masks_error_cex : readMessage .pinned .load
    (replyDoc "rpc-reply" "101" [] [.results "load-configuration-results" [.err exErr, .ok]]) = .ok := by decide

/-! ### a frame is ONE document: a second root element never yields a success

`ServerMsg::from_xml` used to overwrite the reply it had read with a later `<rpc-reply>` of the same
frame (D23): `<rpc-reply><rpc-error>…</rpc-error></rpc-reply><rpc-reply><ok/></rpc-reply>` was a
success. With `RCfg.oneRoot` any further start tag after the first reply element is an unexpected
event, whatever the first reply contained. -/

theorem fromXmlReply_second_root (c : RCfg) (hc : c.oneRoot = true) (k : ReplyKind) (fuel : Nat)
    (v : Nat × Body) (t : Tag) (rest : List Ev) :
    fromXmlReply c k (fuel + 1) (some v) (.start t :: rest) = .error .unexpected := by
  simp [fromXmlReply, hc]

/-- every document of the reply grammar followed by a further start tag (a second `<rpc-reply>` in
particular), for every reply kind: the caller gets an error — never `Ok`, never data -/
theorem second_root_never_success (c : RCfg) (hc : c.oneRoot = true) (k : ReplyKind) (raw idAttr : String)
    (extra : List AttrItem) (cs : List Top) (hwf : ∀ x ∈ cs, x.WF) (t2 : Tag) (rest : List Ev) :
    ∃ e, readMessage c k
      (.start (replyTag raw idAttr extra) :: (cs.flatMap Top.render ++ .end raw :: .start t2 :: rest)) = .err e := by
  unfold readMessage
  cases hp : readPartial c _ none _ with
  | error e => exact ⟨e, rfl⟩
  | ok id1 =>
    simp only [phase2]
    simp only [List.length_cons, List.length_append]
    rw [fromXmlReply]
    have hrt : (replyTag raw idAttr extra).is BASE "rpc-reply" = true := by simp [Tag.is, replyTag]
    simp only [hrt, Option.isSome_none, Bool.and_false, Bool.not_false, Bool.and_true, if_true, readReplyElem]
    have hga : getAttr "message-id" (replyTag raw idAttr extra).attrs
        = .ok (some { key := "message-id", ns := .unbound, lname := "message-id", value := some idAttr }) := by
      simp [getAttr, replyTag]
    simp only [hga]
    cases hpm : parseMessageId { key := "message-id", ns := .unbound, lname := "message-id", value := some idAttr } with
    | error e => exact ⟨e, rfl⟩
    | ok id =>
      have hraw : (replyTag raw idAttr extra).raw = raw := rfl
      have hlen : (cs.flatMap Top.render).length + 1
          ≤ (cs.flatMap Top.render).length + (rest.length + 1 + 1) + 1 := by omega
      have hfuel : (cs.flatMap Top.render).length + (rest.length + 1 + 1) + 1
          = ((cs.flatMap Top.render).length + rest.length + 2) + 1 := by omega
      cases k with
      | empty =>
        simp only [readBody, hraw, emptyLoop_refines cs hwf _ raw false [] (.start t2 :: rest) hlen]
        cases emptyAbs false [] cs with
        | error e => exact ⟨e, by simp [liftRest]⟩
        | ok b => exact ⟨.unexpected, by simp only [liftRest]; rw [hfuel, fromXmlReply_second_root c hc]⟩
      | data =>
        simp only [readBody, hraw, dataLoop_refines cs hwf _ raw none [] (.start t2 :: rest) hlen]
        cases dataAbs none [] cs with
        | error e => exact ⟨e, by simp [liftRest]⟩
        | ok b => exact ⟨.unexpected, by simp only [liftRest]; rw [hfuel, fromXmlReply_second_root c hc]⟩
      | bare =>
        simp only [readBody, hraw, bareLoop_refines cs hwf _ raw [] (.start t2 :: rest) hlen]
        cases bareAbs [] cs with
        | error e => exact ⟨e, by simp [liftRest]⟩
        | ok b => exact ⟨.unexpected, by simp only [liftRest]; rw [hfuel, fromXmlReply_second_root c hc]⟩
      | load =>
        simp only [readBody, hraw, loadOuter_refines c cs hwf _ raw {} (.start t2 :: rest) hlen]
        cases loadAbs c {} cs with
        | error e => exact ⟨e, by simp [liftRest]⟩
        | ok b => exact ⟨.unexpected, by simp only [liftRest]; rw [hfuel, fromXmlReply_second_root c hc]⟩

/-- two reply elements in one frame, the first carrying an error, the second `<ok/>`: before the
repair (`oneRoot := false`) the error was masked and the caller got `Ok`; now it is an error -/
def exTwoReplies : List Ev :=
  (replyDoc "rpc-reply" "101" [] [.err exErr]).dropLast ++ replyDoc "rpc-reply" "101" [] [.ok]

theorem second_root_masks_error_cex :
    readMessage { RCfg.fixed with oneRoot := false } .empty exTwoReplies = .ok
    ∧ readMessage .fixed .empty exTwoReplies = .err .unexpected := by decide

end Xml
