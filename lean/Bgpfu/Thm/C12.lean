import Bgpfu.Lemmas.Hello
/-!
# C12 — session establishment negotiates a version both peers can actually speak

`establish c adv o evs` is `Session::new` on the server's hello message `evs`; `adv = false` is
what `ClientHello::default()` advertises in /repo now (:base:1.0 only), `adv = true` the pinned
snapshot (:base:1.0 and :base:1.1). Theorems quantify over all documents of the hello grammar
(`Bgpfu.Spec.HelloGrammar`): any capability lists, session-id texts, comments, child order,
duplicates, qualified names, and over every URI oracle.
-/
namespace Xml

def HChild.isComment : HChild → Bool
  | .comment => true
  | _ => false

theorem helloAbs_comments (c : RCfg) (o : UriOracle) (caps : Option (List Capability)) (sid : Option Nat)
    (pre rest : List HChild) (h : ∀ c ∈ pre, c.isComment = true) :
    helloAbs c o caps sid (pre ++ rest) = helloAbs c o caps sid rest := by
  induction pre with
  | nil => rfl
  | cons x cs ih =>
    cases x with
    | comment => simp only [List.cons_append, helloAbs]; exact ih (fun y hy => h y (by simp [hy]))
    | caps r l => have := h (.caps r l) (by simp); simp [HChild.isComment] at this
    | sid s i => have := h (.sid s i) (by simp); simp [HChild.isComment] at this

/-- **Refinement** (restated): on every grammar document `Session::new` computes `establishAbs`. -/
theorem establish_refines (c : RCfg) (adv : Bool) (o : UriOracle) (raw : String) (attrs : List AttrItem)
    (cs : List HChild) (hwf : ∀ x ∈ cs, x.WF) :
    establish c adv o (helloDoc raw attrs cs) = establishAbs c adv o cs :=
  establish_doc c adv o raw attrs cs hwf

theorem parseUnsigned_lt (b : Nat) (s : String) (n : Nat) (h : parseUnsigned b s = some n) : n < b := by
  unfold parseUnsigned at h
  simp only at h
  generalize stripPlus s.toList = ds at h
  by_cases he : ds.isEmpty = true
  · simp [he] at h
  · simp only [he, Bool.false_eq_true, if_false] at h
    cases hd : digitsVal ds 0 with
    | none => simp [hd] at h
    | some m =>
      simp only [hd] at h
      by_cases hm : m < b
      · simp only [hm, if_true, Option.some.injEq] at h; omega
      · simp [hm] at h

/-- a session-id accepted by the reader is a non-zero 32-bit number -/
theorem sessionId_valid (s : String) (n : Nat) (h : parseSessionId s = some n) : 1 ≤ n ∧ n < 2 ^ 32 := by
  unfold parseSessionId at h
  cases hp : parseU32 s with
  | none => simp [hp] at h
  | some m =>
    simp only [hp] at h
    have hm := parseUnsigned_lt _ _ _ hp
    by_cases hz : (m == 0) = true
    · simp [hz] at h
    · simp only [hz, Bool.false_eq_true, if_false, Option.some.injEq] at h
      subst h
      simp at hz
      exact ⟨by omega, hm⟩

/-- **C12, establishment ⇔ validity** for a hello of the canonical shape — comments, the
capabilities element, comments, the session-id, comments (capabilities first): the session is
established iff every capability text is a URI, the session-id is a non-zero u32 and the server
advertises :base:1.0; the reported context is then exactly that of the hello, with version 1.0. -/
theorem establish_iff (c : RCfg) (o : UriOracle) (raw r : String) (attrs : List AttrItem)
    (pre mid post : List HChild) (ccs : List CapLeaf) (s : String) (i : List Ev)
    (hpre : ∀ x ∈ pre, x.isComment = true) (hmid : ∀ x ∈ mid, x.isComment = true)
    (hpost : ∀ x ∈ post, x.isComment = true)
    (hc : ∀ x ∈ ccs, x.WF) (hs : Inert "session-id" i) (ctx : Context) :
    establish c false o (helloDoc raw attrs (pre ++ .caps r ccs :: mid ++ .sid s i :: post)) = .ok ctx
      ↔ ∃ caps n, capsAbs c o [] ccs = .ok caps ∧ parseSessionId (c.tok s) = some n ∧ Capability.base10 ∈ caps
            ∧ ctx = { sid := n, version := .v10, serverCaps := caps } := by
  have hwf : ∀ x ∈ pre ++ .caps r ccs :: mid ++ .sid s i :: post, x.WF := by
    intro x hx
    simp only [List.append_assoc, List.cons_append, List.mem_append, List.mem_cons] at hx
    rcases hx with hx | rfl | hx | rfl | hx
    · cases x <;> simp_all [HChild.WF] <;> exact absurd (hpre _ hx) (by simp [HChild.isComment])
    · exact hc
    · cases x <;> simp_all [HChild.WF] <;> exact absurd (hmid _ hx) (by simp [HChild.isComment])
    · exact hs
    · cases x <;> simp_all [HChild.WF] <;> exact absurd (hpost _ hx) (by simp [HChild.isComment])
  rw [establish_refines c false o raw attrs _ hwf]
  unfold establishAbs
  rw [List.append_assoc, helloAbs_comments c o none none pre _ hpre]
  simp only [List.cons_append, helloAbs, Option.isNone_none, if_true]
  cases hca : capsAbs c o [] ccs with
  | error e => simp
  | ok caps =>
    simp only []
    rw [helloAbs_comments c o (some caps) none mid _ hmid]
    simp only [helloAbs, Option.isNone_none, if_true]
    cases hsi : parseSessionId (c.tok s) with
    | none => simp
    | some n =>
      simp only []
      have := helloAbs_comments c o (some caps) (some n) post [] hpost
      rw [List.append_nil] at this
      rw [this]
      simp only [helloAbs, highestCommon, clientAdvertised, Bool.false_eq_true, if_false]
      by_cases hb : Capability.base10 ∈ caps
      · have h1 : caps.contains Capability.base10 = true := by simpa using hb
        have h2 : ([Capability.base10].contains Capability.base11) = false := by decide
        have h3 : ([Capability.base10].contains Capability.base10) = true := by decide
        simp only [h1, h2, h3, Bool.false_and, Bool.false_eq_true, if_false, Bool.and_self, if_true]
        constructor
        · intro h; cases h; exact ⟨caps, n, rfl, rfl, hb, rfl⟩
        · rintro ⟨caps', n', h1', h2', _, rfl⟩; cases h1'; cases h2'; rfl
      · have h1 : caps.contains Capability.base10 = false := by simpa using hb
        have h2 : ([Capability.base10].contains Capability.base11) = false := by decide
        simp only [h1, h2, Bool.false_and, Bool.and_false, Bool.false_eq_true, if_false]
        constructor
        · intro h; cases h
        · rintro ⟨caps', n', h1', _, h3', _⟩; cases h1'; exact absurd h3' hb

/-- the negotiated version is the highest one both peers advertised -/
theorem version_is_highest_common (client server : List Capability) (v : Base)
    (h : highestCommon client server = some v) :
    (v = .v11 → Capability.base11 ∈ client ∧ Capability.base11 ∈ server) ∧
    (v = .v10 → Capability.base10 ∈ client ∧ Capability.base10 ∈ server ∧
       ¬ (Capability.base11 ∈ client ∧ Capability.base11 ∈ server)) := by
  unfold highestCommon at h
  split at h
  · rename_i h1
    simp only [Option.some.injEq] at h; subst h
    simp only [Bool.and_eq_true, List.contains_iff_mem] at h1
    exact ⟨fun _ => h1, fun hv => by cases hv⟩
  · rename_i h1
    split at h
    · rename_i h2
      simp only [Option.some.injEq] at h; subst h
      simp only [Bool.and_eq_true, List.contains_iff_mem] at h2
      constructor
      · intro hv; cases hv
      · intro _
        refine ⟨h2.1, h2.2, ?_⟩
        intro ⟨a, b⟩
        apply h1
        simp [a, b]
    · cases h

theorem no_common_version_fails (client server : List Capability)
    (h : highestCommon client server = none) :
    ¬ (Capability.base10 ∈ client ∧ Capability.base10 ∈ server) ∧
    ¬ (Capability.base11 ∈ client ∧ Capability.base11 ∈ server) := by
  unfold highestCommon at h
  split at h
  · cases h
  · rename_i h1
    split at h
    · cases h
    · rename_i h2
      refine ⟨?_, ?_⟩
      · intro ⟨a, b⟩; apply h2; simp [a, b]
      · intro ⟨a, b⟩; apply h1; simp [a, b]

/-- **C12, usability**: whatever the server's hello (any event list at all), if the session is
established the framing the client uses is the one RFC 6242 §4.1 requires. -/
theorem established_is_usable (c : RCfg) (o : UriOracle) (evs : List Ev) (ctx : Context)
    (_h : establish c false o evs = .ok ctx) :
    framingUsed = framingRequired (clientAdvertised false) ctx.serverCaps := by
  simp [framingUsed, framingRequired, clientAdvertised]

/-! ### Non-vacuity and the pinned snapshot -/

def exOracle : UriOracle := fun s =>
  if s == "urn:ietf:params:netconf:base:1.0" then
    some { scheme := "urn", authority := none, path := "ietf:params:netconf:base:1.0", query := none, fragment := none }
  else if s == "urn:ietf:params:netconf:base:1.1" then
    some { scheme := "urn", authority := none, path := "ietf:params:netconf:base:1.1", query := none, fragment := none }
  else none

def exHello (caps : List String) : List Ev :=
  helloDoc "hello" [] [.comment, .caps "capabilities" (caps.map fun c => .cap c [.text c]), .sid "4" [.text "4"]]

example : (establish .fixed false exOracle (exHello ["urn:ietf:params:netconf:base:1.0", "urn:ietf:params:netconf:base:1.1"])).toOption
    = some { sid := 4, version := .v10, serverCaps := [.base10, .base11] } := by decide

example : (establish .fixed false exOracle (exHello ["urn:ietf:params:netconf:base:1.1"])).toOption = none := by decide

/-- **Defect D8 of the pinned snapshot**: the client advertised :base:1.1; with a server that does
too, the session is established with version 1.1 although chunked framing is not implemented. -/
theorem v11_unusable_cex :
    ∃ ctx, (establish .pinned true exOracle (exHello ["urn:ietf:params:netconf:base:1.0", "urn:ietf:params:netconf:base:1.1"])).toOption = some ctx
      ∧ ctx.version = .v11 ∧ framingUsed ≠ framingRequired (clientAdvertised true) ctx.serverCaps :=
  ⟨{ sid := 4, version := .v11, serverCaps := [.base10, .base11] }, by decide, rfl, by decide⟩

end Xml

/-! ## Exactness of capability recognition (`impl FromStr for Capability`, capabilities.rs:123-183)

For **every** decomposition `u : UriParts` the oracle (iri-string) may report for a capability text:
a capability of the table is recognised **iff** the five components are exactly those of the table
(`UriParts.Is`: scheme, authority, path as given, **no** query, **no** fragment). So no URI with a
query or a fragment — not even an empty one (`some ""`: `…base:1.0#`, `…base:1.0?`) —, another
scheme spelling or a longer/shorter path is ever taken for it. -/
namespace Xml

theorem classify_base10_iff (s : String) (u : UriParts) :
    classifyCapability s u = .base10 ↔ u.Is "urn" none "ietf:params:netconf:base:1.0" := by xml_exact

theorem classify_base11_iff (s : String) (u : UriParts) :
    classifyCapability s u = .base11 ↔ u.Is "urn" none "ietf:params:netconf:base:1.1" := by xml_exact

theorem classify_writableRunning_iff (s : String) (u : UriParts) :
    classifyCapability s u = .writableRunning ↔ u.Is "urn" none "ietf:params:netconf:capability:writable-running:1.0" := by
  xml_exact

theorem classify_candidate_iff (s : String) (u : UriParts) :
    classifyCapability s u = .candidate ↔ u.Is "urn" none "ietf:params:netconf:capability:candidate:1.0" := by
  xml_exact

theorem classify_confirmedCommit10_iff (s : String) (u : UriParts) :
    classifyCapability s u = .confirmedCommit10 ↔ u.Is "urn" none "ietf:params:netconf:capability:confirmed-commit:1.0" := by
  xml_exact

theorem classify_confirmedCommit11_iff (s : String) (u : UriParts) :
    classifyCapability s u = .confirmedCommit11 ↔ u.Is "urn" none "ietf:params:netconf:capability:confirmed-commit:1.1" := by
  xml_exact

theorem classify_rollbackOnError_iff (s : String) (u : UriParts) :
    classifyCapability s u = .rollbackOnError ↔ u.Is "urn" none "ietf:params:netconf:capability:rollback-on-error:1.0" := by
  xml_exact

theorem classify_validate10_iff (s : String) (u : UriParts) :
    classifyCapability s u = .validate10 ↔ u.Is "urn" none "ietf:params:netconf:capability:validate:1.0" := by
  xml_exact

theorem classify_validate11_iff (s : String) (u : UriParts) :
    classifyCapability s u = .validate11 ↔ u.Is "urn" none "ietf:params:netconf:capability:validate:1.1" := by
  xml_exact

theorem classify_startup_iff (s : String) (u : UriParts) :
    classifyCapability s u = .startup ↔ u.Is "urn" none "ietf:params:netconf:capability:startup:1.0" := by
  xml_exact

theorem classify_xpath_iff (s : String) (u : UriParts) :
    classifyCapability s u = .xpath ↔ u.Is "urn" none "ietf:params:netconf:capability:xpath:1.0" := by xml_exact

theorem classify_junos_iff (s : String) (u : UriParts) :
    classifyCapability s u = .junos ↔ u.Is "http" (some "xml.juniper.net") "/netconf/junos/1.0" := by xml_exact

/-- the `:url:1.0` capability: exact scheme, no authority, exact path, no fragment, **some** query;
its scheme list is `urlSchemes` of the unescaped query -/
theorem classify_url_iff (s : String) (u : UriParts) (l : List String) :
    classifyCapability s u = .url l ↔
      u.scheme = "urn" ∧ u.authority = none ∧ u.path = "ietf:params:netconf:capability:url:1.0" ∧
        u.fragment = none ∧ u.query.isSome = true ∧ l = urlSchemes (u.queryUnesc.getD "") := by
  constructor
  · intro h
    unfold classifyCapability at h
    dsimp only at h
    repeat' (replace h := Caps.ite_cases h; rcases h with ⟨hc, h⟩ | ⟨_, h⟩)
    all_goals first | (cases h; done) | skip
    simp only [Bool.and_eq_true, beq_iff_eq, Option.isNone_iff_eq_none] at hc
    cases h
    exact ⟨hc.1.1.1.1, hc.1.1.1.2, hc.1.2, hc.1.1.2, hc.2, rfl⟩
  · rintro ⟨h1, h2, h3, h4, h5, rfl⟩
    obtain ⟨sc, au, pa, qu, fr, qe⟩ := u
    simp only at h1 h2 h3 h4 h5
    subst h1 h2 h3 h4
    cases qu with
    | none => cases h5
    | some q =>
      unfold classifyCapability
      dsimp only
      iterate 10 rw [if_neg (by simp)]
      rw [if_pos (by simp)]

/-- anything else is `Unknown` and keeps the capability text as it stands -/
theorem classify_unknown (s t : String) (u : UriParts) (h : classifyCapability s u = .unknown t) : t = s := by
  unfold classifyCapability at h
  dsimp only at h
  repeat' (replace h := Caps.ite_cases h; rcases h with ⟨hc, h⟩ | ⟨_, h⟩)
  all_goals first | (cases h; done) | skip
  cases h; rfl

/-- `Capability::from_str` recognises a non-`:url` capability exactly when the oracle decomposes the
text and `classifyCapability` recognises the parts -/
theorem parseCapability_eq_iff (o : UriOracle) (s : String) (k : Capability) (hk : ∀ l, k ≠ .url l) :
    parseCapability o s = .ok k ↔ ∃ u, o s = some u ∧ classifyCapability s u = k := by
  unfold parseCapability
  cases ho : o s with
  | none => simp
  | some u =>
    simp only [Option.some.injEq, exists_eq_left']
    split
    · next hc =>
      constructor
      · intro h; cases h
      · intro h
        exfalso
        simp only [isUrlCap, Bool.and_eq_true, beq_iff_eq, Option.isNone_iff_eq_none] at hc
        exact hk _ ((classify_url_iff s u _).2 ⟨hc.1.1.1.1.1, hc.1.1.1.1.2, hc.1.1.2, hc.1.1.1.2, hc.1.2, rfl⟩ ▸ h).symm
    · simp

/-- **C12, exactness at the reader**: a capability text is taken for `:base:1.0` iff it is a URI whose
components are exactly `urn`, no authority, `ietf:params:netconf:base:1.0`, no query, no fragment. -/
theorem parseCapability_base10_iff (o : UriOracle) (s : String) :
    parseCapability o s = .ok .base10 ↔ ∃ u, o s = some u ∧ u.Is "urn" none "ietf:params:netconf:base:1.0" := by
  rw [parseCapability_eq_iff o s _ (fun _ h => by cases h)]
  simp only [classify_base10_iff]

theorem parseCapability_base11_iff (o : UriOracle) (s : String) :
    parseCapability o s = .ok .base11 ↔ ∃ u, o s = some u ∧ u.Is "urn" none "ietf:params:netconf:base:1.1" := by
  rw [parseCapability_eq_iff o s _ (fun _ h => by cases h)]
  simp only [classify_base11_iff]

/-! ### the scheme list of `:url:1.0` -/

/-- `str::split(c)` is *the* decomposition of a text into `c`-free pieces separated by `c` -/
theorem splitOnChar_eq_iff (c : Char) (l : List Char) (ps : List (List Char)) :
    splitOnChar c l = ps ↔ ps ≠ [] ∧ (∀ p ∈ ps, c ∉ p) ∧ Caps.joinSep c ps = l := by
  rw [splitOnChar_eq]; exact Caps.splitOn_eq_iff c l ps

/-- **the schemes are exactly the comma-separated values of the parameters named `scheme`**: `x` is
a scheme of the (unescaped) query iff one of its `&`-separated parameters is `scheme=` followed by a
value one of whose `,`-separated pieces is `x`. -/
theorem mem_urlSchemes_iff (q x : String) :
    x ∈ urlSchemes q ↔
      ∃ param ∈ splitOnChar '&' q.toList, ∃ value, param = "scheme=".toList ++ value ∧
        ∃ piece ∈ splitOnChar ',' value, x = String.ofList piece := by
  rw [urlSchemes_eq, List.mem_map]
  simp only [splitOnChar_eq]
  constructor
  · rintro ⟨y, hy, rfl⟩
    obtain ⟨param, hp, value, hv, hx⟩ := (Caps.mem_urlSchemes_iff _ _).1 hy
    exact ⟨param, hp, value, hv, y, hx, rfl⟩
  · rintro ⟨param, hp, value, hv, piece, hx, rfl⟩
    exact ⟨piece, (Caps.mem_urlSchemes_iff _ _).2 ⟨param, hp, value, hv, hx⟩, rfl⟩

/-- a parameter whose name is not exactly `scheme` (`fallback-scheme=…`, `xscheme=…`, `Scheme=…`,
`scheme` without `=`) contributes nothing: if no parameter starts with `scheme=`, there are no schemes -/
theorem urlSchemes_eq_nil (q : String) (h : ∀ param ∈ splitOnChar '&' q.toList, ¬ "scheme=".toList <+: param) :
    urlSchemes q = [] := by
  apply List.eq_nil_iff_forall_not_mem.2
  intro x hx
  obtain ⟨param, hp, value, rfl, _⟩ := (mem_urlSchemes_iff q x).1 hx
  exact h _ hp (List.prefix_append _ _)

/-- … and other parameters never change what the `scheme` parameters contribute: for queries written
as `&`-free parameters joined by `&` -/
theorem urlSchemes_append_other (params other : List (List Char)) (hne : params ≠ [])
    (hfree : ∀ p ∈ params ++ other, '&' ∉ p) (hother : ∀ p ∈ other, ¬ "scheme=".toList <+: p) (x : String) :
    x ∈ urlSchemes (String.ofList (Caps.joinSep '&' (params ++ other)))
      ↔ x ∈ urlSchemes (String.ofList (Caps.joinSep '&' params)) := by
  simp only [urlSchemes_eq, String.toList_ofList, List.mem_map]
  constructor
  · rintro ⟨y, hy, rfl⟩; exact ⟨y, (Caps.urlSchemes_append_other params other hne hfree hother y).1 hy, rfl⟩
  · rintro ⟨y, hy, rfl⟩; exact ⟨y, (Caps.urlSchemes_append_other params other hne hfree hother y).2 hy, rfl⟩

/-! ### the connection with establishment -/

/-- some capability text of the hello is decomposed by the oracle into exactly the `:base:1.0` parts -/
def HasExactBase10 (c : RCfg) (o : UriOracle) (cs : List HChild) : Prop :=
  ∃ r ccs span inner u, HChild.caps r ccs ∈ cs ∧ CapLeaf.cap span inner ∈ ccs ∧ o (c.tok span) = some u ∧
    u.Is "urn" none "ietf:params:netconf:base:1.0"

/-- in an accepted capability list, `:base:1.0` is present iff one of the texts is exactly that URI -/
theorem base10_mem_capsAbs_iff (c : RCfg) (o : UriOracle) (ccs : List CapLeaf) (caps : List Capability)
    (h : capsAbs c o [] ccs = .ok caps) :
    Capability.base10 ∈ caps ↔ ∃ span inner u, CapLeaf.cap span inner ∈ ccs ∧ o (c.tok span) = some u ∧
      u.Is "urn" none "ietf:params:netconf:base:1.0" := by
  rw [capsAbs_mem_iff c o [] ccs caps h]
  simp only [List.not_mem_nil, false_or, parseCapability_base10_iff]
  constructor
  · rintro ⟨span, inner, hm, u, hu, hi⟩; exact ⟨span, inner, u, hm, hu, hi⟩
  · rintro ⟨span, inner, u, hm, hu, hi⟩; exact ⟨span, inner, hm, u, hu, hi⟩

/-- **C12, no session without an exact `:base:1.0`**: for every document of the hello grammar (any
children in any order, any other capabilities, any oracle): if the session is established, some
capability text of the hello decomposes to exactly `urn` / no authority /
`ietf:params:netconf:base:1.0` / no query / no fragment. -/
theorem established_has_exact_base10 (c : RCfg) (o : UriOracle) (raw : String) (attrs : List AttrItem)
    (cs : List HChild) (hwf : ∀ x ∈ cs, x.WF) (ctx : Context)
    (h : establish c false o (helloDoc raw attrs cs) = .ok ctx) : HasExactBase10 c o cs := by
  rw [establish_refines c false o raw attrs cs hwf] at h
  unfold establishAbs at h
  cases hh : helloAbs c o none none cs with
  | error e => rw [hh] at h; cases h
  | ok hello =>
    rw [hh] at h
    simp only at h
    cases hv : highestCommon (clientAdvertised false) hello.caps with
    | none => rw [hv] at h; cases h
    | some v =>
      have hb : Capability.base10 ∈ hello.caps := by
        have := version_is_highest_common _ _ v hv
        cases v with
        | v10 => exact (this.2 rfl).2.1
        | v11 => exact absurd (this.1 rfl).1 (by decide)
      rcases helloAbs_caps c o none none cs hello hh with h1 | ⟨r, ccs, hm, hc⟩
      · cases h1
      · obtain ⟨span, inner, u, hl, hu, hi⟩ := (base10_mem_capsAbs_iff c o ccs _ hc).1 hb
        exact ⟨r, ccs, span, inner, u, hm, hl, hu, hi⟩

/-- … contrapositive: whatever else the hello contains, without such a text there is no session -/
theorem not_established_without_exact_base10 (c : RCfg) (o : UriOracle) (raw : String) (attrs : List AttrItem)
    (cs : List HChild) (hwf : ∀ x ∈ cs, x.WF) (hno : ¬ HasExactBase10 c o cs) (ctx : Context) :
    establish c false o (helloDoc raw attrs cs) ≠ .ok ctx :=
  fun h => hno (established_has_exact_base10 c o raw attrs cs hwf ctx h)

/-- **C12, establishment ⇔ validity, with `:base:1.0` spelled out**: `establish_iff` with the
membership `base10 ∈ caps` replaced by its meaning on the capability texts. -/
theorem establish_iff_exact (c : RCfg) (o : UriOracle) (raw r : String) (attrs : List AttrItem)
    (pre mid post : List HChild) (ccs : List CapLeaf) (s : String) (i : List Ev)
    (hpre : ∀ x ∈ pre, x.isComment = true) (hmid : ∀ x ∈ mid, x.isComment = true)
    (hpost : ∀ x ∈ post, x.isComment = true)
    (hc : ∀ x ∈ ccs, x.WF) (hs : Inert "session-id" i) (ctx : Context) :
    establish c false o (helloDoc raw attrs (pre ++ .caps r ccs :: mid ++ .sid s i :: post)) = .ok ctx
      ↔ ∃ caps n, capsAbs c o [] ccs = .ok caps ∧ parseSessionId (c.tok s) = some n
            ∧ (∃ span inner u, CapLeaf.cap span inner ∈ ccs ∧ o (c.tok span) = some u ∧
                u.Is "urn" none "ietf:params:netconf:base:1.0")
            ∧ ctx = { sid := n, version := .v10, serverCaps := caps } := by
  rw [establish_iff c o raw r attrs pre mid post ccs s i hpre hmid hpost hc hs ctx]
  constructor
  · rintro ⟨caps, n, h1, h2, h3, h4⟩
    exact ⟨caps, n, h1, h2, (base10_mem_capsAbs_iff c o ccs caps h1).1 h3, h4⟩
  · rintro ⟨caps, n, h1, h2, h3, h4⟩
    exact ⟨caps, n, h1, h2, (base10_mem_capsAbs_iff c o ccs caps h1).2 h3, h4⟩

/-! ### near misses (non-vacuity and documentation; all by evaluation) -/

/-- `urn:ietf:params:netconf:base:1.0#` — an empty fragment is a fragment -/
theorem base10_empty_fragment_is_unknown :
    classifyCapability "urn:ietf:params:netconf:base:1.0#"
      { scheme := "urn", authority := none, path := "ietf:params:netconf:base:1.0", query := none, fragment := some "" }
      = .unknown "urn:ietf:params:netconf:base:1.0#" := by decide

/-- `urn:ietf:params:netconf:base:1.0?` — an empty query is a query -/
theorem base10_empty_query_is_unknown :
    classifyCapability "urn:ietf:params:netconf:base:1.0?"
      { scheme := "urn", authority := none, path := "ietf:params:netconf:base:1.0", query := some "", fragment := none,
        queryUnesc := some "" }
      = .unknown "urn:ietf:params:netconf:base:1.0?" := by decide

/-- `…base:1.00`, `…base:1.`, `URN:…`, `urn://host/…`: longer / shorter path, another scheme spelling,
an authority — and the exact one for comparison -/
theorem base10_near_misses_are_unknown :
    classifyCapability "x" { scheme := "urn", authority := none, path := "ietf:params:netconf:base:1.00", query := none, fragment := none } = .unknown "x"
    ∧ classifyCapability "x" { scheme := "urn", authority := none, path := "ietf:params:netconf:base:1.", query := none, fragment := none } = .unknown "x"
    ∧ classifyCapability "x" { scheme := "URN", authority := none, path := "ietf:params:netconf:base:1.0", query := none, fragment := none } = .unknown "x"
    ∧ classifyCapability "x" { scheme := "urn", authority := some "", path := "ietf:params:netconf:base:1.0", query := none, fragment := none } = .unknown "x"
    ∧ classifyCapability "x" { scheme := "urn", authority := none, path := "ietf:params:netconf:base:1.0", query := none, fragment := none } = .base10 := by
  decide

/-- `?scheme=file&fallback-scheme=ftp`: only the parameter named `scheme` counts -/
theorem url_other_parameter_names_ignored :
    urlSchemes "scheme=file&fallback-scheme=ftp" = ["file"]
    ∧ urlSchemes "xscheme=http&fallback-scheme=ftp&scheme" = []
    ∧ urlSchemes "fallback-scheme=ftp&scheme=file,sftp&Scheme=http" = ["file", "sftp"]
    ∧ classifyCapability "x"
        { scheme := "urn", authority := none, path := "ietf:params:netconf:capability:url:1.0",
          query := some "scheme=file&amp;fallback-scheme=ftp", fragment := none,
          queryUnesc := some "scheme=file&fallback-scheme=ftp" } = .url ["file"] := by
  decide

/-- an oracle that decomposes the near misses the way iri-string does -/
def nearMissOracle : UriOracle := fun s =>
  if s == "urn:ietf:params:netconf:base:1.0#" then
    some { scheme := "urn", authority := none, path := "ietf:params:netconf:base:1.0", query := none, fragment := some "" }
  else if s == "urn:ietf:params:netconf:base:1.0?" then
    some { scheme := "urn", authority := none, path := "ietf:params:netconf:base:1.0", query := some "", fragment := none,
           queryUnesc := some "" }
  else if s == "urn:ietf:params:netconf:base:1.00" then
    some { scheme := "urn", authority := none, path := "ietf:params:netconf:base:1.00", query := none, fragment := none }
  else exOracle s

/-- a hello whose only "base" capabilities are the near misses is read (they are `Unknown`
capabilities) but no session is established; with the exact text next to them it is -/
theorem near_miss_hello_not_established :
    (match establish .fixed false nearMissOracle (exHello ["urn:ietf:params:netconf:base:1.0#",
        "urn:ietf:params:netconf:base:1.0?", "urn:ietf:params:netconf:base:1.00"]) with
      | .error e => some e | .ok _ => none) = some Err.other   -- Error::VersionNegotiation
    ∧ (establish .fixed false nearMissOracle (exHello ["urn:ietf:params:netconf:base:1.0#",
        "urn:ietf:params:netconf:base:1.0"])).toOption
      = some { sid := 4, version := .v10,
               serverCaps := [.unknown "urn:ietf:params:netconf:base:1.0#", .base10] } := by
  decide

/-! ### a hello message is ONE document: a second root element is refused

`ServerMsg::from_xml` used to overwrite the message it had read with a later root element of the same
name (D23): a message holding two `<hello>` elements — not a well-formed document — established a
session from the second. `RCfg.oneRoot` is the repaired rule. -/

/-- once a hello has been read, another root element is an unexpected event, whatever it is and
whatever follows it (for the `hello` element itself this needs `oneRoot`) -/
theorem fromXmlHello_second_root (c : RCfg) (hc : c.oneRoot = true) (o : UriOracle) (fuel : Nat)
    (v : Hello) (t : Tag) (rest : List Ev) :
    fromXmlHello c o (fuel + 1) (some v) (.start t :: rest) = .error .unexpected := by
  simp [fromXmlHello, hc]

/-- every document of the hello grammar followed by a further start tag — a second `<hello>` in
particular — establishes no session, for every first hello, every second element and every
continuation -/
theorem second_root_refused (c : RCfg) (hc : c.oneRoot = true) (adv : Bool) (o : UriOracle)
    (raw : String) (attrs : List AttrItem) (cs : List HChild) (hwf : ∀ x ∈ cs, x.WF)
    (t2 : Tag) (rest : List Ev) (ctx : Context) :
    establish c adv o
      (.start (helloTag raw attrs) :: (cs.flatMap HChild.render ++ .end raw :: .start t2 :: rest)) ≠ .ok ctx := by
  unfold establish
  simp only [List.length_cons, List.length_append]
  rw [fromXmlHello]
  have ht : (helloTag raw attrs).is BASE "hello" = true := by simp [Tag.is, helloTag]
  simp only [ht, Option.isSome_none, Bool.and_false, Bool.not_false, Bool.and_true, if_true]
  have hraw : (helloTag raw attrs).raw = raw := rfl
  rw [hraw, helloLoop_refines c o cs hwf _ raw none none (.start t2 :: rest) (by omega)]
  cases helloAbs c o none none cs with
  | error e => simp [liftP]
  | ok h =>
    simp only [liftP]
    have : (cs.flatMap HChild.render).length + (rest.length + 1 + 1) + 1
        = ((cs.flatMap HChild.render).length + rest.length + 2) + 1 := by omega
    rw [this, fromXmlHello_second_root c hc]
    simp

/-- the pinned reader (and the code before the repair) established a session from the SECOND of two
hello elements: session-id 9 of the second, not 4 of the first -/
def exTwoHellos : List Ev :=
  (exHello ["urn:ietf:params:netconf:base:1.0"]).dropLast ++
    helloDoc "hello" [] [.caps "capabilities" [.cap "urn:ietf:params:netconf:base:1.0" [.text "urn:ietf:params:netconf:base:1.0"]],
                         .sid "9" [.text "9"]]

theorem second_root_overwrites_cex :
    (establish { RCfg.fixed with oneRoot := false } false exOracle exTwoHellos).toOption.map (·.sid) = some 9
    ∧ (establish .fixed false exOracle exTwoHellos).toOption = none := by
  decide

end Xml
