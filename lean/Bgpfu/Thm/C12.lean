import Bgpfu.Lemmas.Hello
/-!
# C12 — session establishment negotiates a version both peers can actually speak

`establish c adv o evs` is `Session::new` on the server's hello message `evs`; `adv = false` is
what `ClientHello::default()` advertises in /repo now (:base:1.0 only), `adv = true` the pinned
snapshot (:base:1.0 and :base:1.1). Theorems quantify over all documents of the hello grammar
(`Bgpfu.Spec.HelloGrammar`): any capability lists, session-id texts, comments, child order,
duplicates, qualified names, and over every URI oracle.
-/
namespace Xml

def HChild.isComment : HChild → Bool
  | .comment => true
  | _ => false

theorem helloAbs_comments (c : RCfg) (o : UriOracle) (caps : Option (List Capability)) (sid : Option Nat)
    (pre rest : List HChild) (h : ∀ c ∈ pre, c.isComment = true) :
    helloAbs c o caps sid (pre ++ rest) = helloAbs c o caps sid rest := by
  induction pre with
  | nil => rfl
  | cons x cs ih =>
    cases x with
    | comment => simp only [List.cons_append, helloAbs]; exact ih (fun y hy => h y (by simp [hy]))
    | caps r l => have := h (.caps r l) (by simp); simp [HChild.isComment] at this
    | sid s i => have := h (.sid s i) (by simp); simp [HChild.isComment] at this

/-- **Refinement** (restated): on every grammar document `Session::new` computes `establishAbs`. -/
theorem establish_refines (c : RCfg) (adv : Bool) (o : UriOracle) (raw : String) (attrs : List AttrItem)
    (cs : List HChild) (hwf : ∀ x ∈ cs, x.WF) :
    establish c adv o (helloDoc raw attrs cs) = establishAbs c adv o cs :=
  establish_doc c adv o raw attrs cs hwf

theorem parseUnsigned_lt (b : Nat) (s : String) (n : Nat) (h : parseUnsigned b s = some n) : n < b := by
  unfold parseUnsigned at h
  simp only at h
  generalize stripPlus s.toList = ds at h
  by_cases he : ds.isEmpty = true
  · simp [he] at h
  · simp only [he, Bool.false_eq_true, if_false] at h
    cases hd : digitsVal ds 0 with
    | none => simp [hd] at h
    | some m =>
      simp only [hd] at h
      by_cases hm : m < b
      · simp only [hm, if_true, Option.some.injEq] at h; omega
      · simp [hm] at h

/-- a session-id accepted by the reader is a non-zero 32-bit number -/
theorem sessionId_valid (s : String) (n : Nat) (h : parseSessionId s = some n) : 1 ≤ n ∧ n < 2 ^ 32 := by
  unfold parseSessionId at h
  cases hp : parseU32 s with
  | none => simp [hp] at h
  | some m =>
    simp only [hp] at h
    have hm := parseUnsigned_lt _ _ _ hp
    by_cases hz : (m == 0) = true
    · simp [hz] at h
    · simp only [hz, Bool.false_eq_true, if_false, Option.some.injEq] at h
      subst h
      simp at hz
      exact ⟨by omega, hm⟩

/-- **C12, establishment ⇔ validity** for a hello of the canonical shape — comments, the
capabilities element, comments, the session-id, comments (capabilities first): the session is
established iff every capability text is a URI, the session-id is a non-zero u32 and the server
advertises :base:1.0; the reported context is then exactly that of the hello, with version 1.0. -/
theorem establish_iff (c : RCfg) (o : UriOracle) (raw r : String) (attrs : List AttrItem)
    (pre mid post : List HChild) (ccs : List CapLeaf) (s : String) (i : List Ev)
    (hpre : ∀ x ∈ pre, x.isComment = true) (hmid : ∀ x ∈ mid, x.isComment = true)
    (hpost : ∀ x ∈ post, x.isComment = true)
    (hc : ∀ x ∈ ccs, x.WF) (hs : Inert "session-id" i) (ctx : Context) :
    establish c false o (helloDoc raw attrs (pre ++ .caps r ccs :: mid ++ .sid s i :: post)) = .ok ctx
      ↔ ∃ caps n, capsAbs c o [] ccs = .ok caps ∧ parseSessionId (c.tok s) = some n ∧ Capability.base10 ∈ caps
            ∧ ctx = { sid := n, version := .v10, serverCaps := caps } := by
  have hwf : ∀ x ∈ pre ++ .caps r ccs :: mid ++ .sid s i :: post, x.WF := by
    intro x hx
    simp only [List.append_assoc, List.cons_append, List.mem_append, List.mem_cons] at hx
    rcases hx with hx | rfl | hx | rfl | hx
    · cases x <;> simp_all [HChild.WF] <;> exact absurd (hpre _ hx) (by simp [HChild.isComment])
    · exact hc
    · cases x <;> simp_all [HChild.WF] <;> exact absurd (hmid _ hx) (by simp [HChild.isComment])
    · exact hs
    · cases x <;> simp_all [HChild.WF] <;> exact absurd (hpost _ hx) (by simp [HChild.isComment])
  rw [establish_refines c false o raw attrs _ hwf]
  unfold establishAbs
  rw [List.append_assoc, helloAbs_comments c o none none pre _ hpre]
  simp only [List.cons_append, helloAbs, Option.isNone_none, if_true]
  cases hca : capsAbs c o [] ccs with
  | error e => simp
  | ok caps =>
    simp only []
    rw [helloAbs_comments c o (some caps) none mid _ hmid]
    simp only [helloAbs, Option.isNone_none, if_true]
    cases hsi : parseSessionId (c.tok s) with
    | none => simp
    | some n =>
      simp only []
      have := helloAbs_comments c o (some caps) (some n) post [] hpost
      rw [List.append_nil] at this
      rw [this]
      simp only [helloAbs, highestCommon, clientAdvertised, Bool.false_eq_true, if_false]
      by_cases hb : Capability.base10 ∈ caps
      · have h1 : caps.contains Capability.base10 = true := by simpa using hb
        have h2 : ([Capability.base10].contains Capability.base11) = false := by decide
        have h3 : ([Capability.base10].contains Capability.base10) = true := by decide
        simp only [h1, h2, h3, Bool.false_and, Bool.false_eq_true, if_false, Bool.and_self, if_true]
        constructor
        · intro h; cases h; exact ⟨caps, n, rfl, rfl, hb, rfl⟩
        · rintro ⟨caps', n', h1', h2', _, rfl⟩; cases h1'; cases h2'; rfl
      · have h1 : caps.contains Capability.base10 = false := by simpa using hb
        have h2 : ([Capability.base10].contains Capability.base11) = false := by decide
        simp only [h1, h2, Bool.false_and, Bool.and_false, Bool.false_eq_true, if_false]
        constructor
        · intro h; cases h
        · rintro ⟨caps', n', h1', _, h3', _⟩; cases h1'; exact absurd h3' hb

/-- the negotiated version is the highest one both peers advertised -/
theorem version_is_highest_common (client server : List Capability) (v : Base)
    (h : highestCommon client server = some v) :
    (v = .v11 → Capability.base11 ∈ client ∧ Capability.base11 ∈ server) ∧
    (v = .v10 → Capability.base10 ∈ client ∧ Capability.base10 ∈ server ∧
       ¬ (Capability.base11 ∈ client ∧ Capability.base11 ∈ server)) := by
  unfold highestCommon at h
  split at h
  · rename_i h1
    simp only [Option.some.injEq] at h; subst h
    simp only [Bool.and_eq_true, List.contains_iff_mem] at h1
    exact ⟨fun _ => h1, fun hv => by cases hv⟩
  · rename_i h1
    split at h
    · rename_i h2
      simp only [Option.some.injEq] at h; subst h
      simp only [Bool.and_eq_true, List.contains_iff_mem] at h2
      constructor
      · intro hv; cases hv
      · intro _
        refine ⟨h2.1, h2.2, ?_⟩
        intro ⟨a, b⟩
        apply h1
        simp [a, b]
    · cases h

theorem no_common_version_fails (client server : List Capability)
    (h : highestCommon client server = none) :
    ¬ (Capability.base10 ∈ client ∧ Capability.base10 ∈ server) ∧
    ¬ (Capability.base11 ∈ client ∧ Capability.base11 ∈ server) := by
  unfold highestCommon at h
  split at h
  · cases h
  · rename_i h1
    split at h
    · cases h
    · rename_i h2
      refine ⟨?_, ?_⟩
      · intro ⟨a, b⟩; apply h2; simp [a, b]
      · intro ⟨a, b⟩; apply h1; simp [a, b]

/-- **C12, usability**: whatever the server's hello (any event list at all), if the session is
established the framing the client uses is the one RFC 6242 §4.1 requires. -/
theorem established_is_usable (c : RCfg) (o : UriOracle) (evs : List Ev) (ctx : Context)
    (_h : establish c false o evs = .ok ctx) :
    framingUsed = framingRequired (clientAdvertised false) ctx.serverCaps := by
  simp [framingUsed, framingRequired, clientAdvertised]

/-! ### Non-vacuity and the pinned snapshot -/

def exOracle : UriOracle := fun s =>
  if s == "urn:ietf:params:netconf:base:1.0" then
    some { scheme := "urn", authority := none, path := "ietf:params:netconf:base:1.0", query := none, fragment := none }
  else if s == "urn:ietf:params:netconf:base:1.1" then
    some { scheme := "urn", authority := none, path := "ietf:params:netconf:base:1.1", query := none, fragment := none }
  else none

def exHello (caps : List String) : List Ev :=
  helloDoc "hello" [] [.comment, .caps "capabilities" (caps.map fun c => .cap c [.text c]), .sid "4" [.text "4"]]

example : (establish .fixed false exOracle (exHello ["urn:ietf:params:netconf:base:1.0", "urn:ietf:params:netconf:base:1.1"])).toOption
    = some { sid := 4, version := .v10, serverCaps := [.base10, .base11] } := by decide

example : (establish .fixed false exOracle (exHello ["urn:ietf:params:netconf:base:1.1"])).toOption = none := by decide

/-- **Defect D8 of the pinned snapshot**: the client advertised :base:1.1; with a server that does
too, the session is established with version 1.1 although chunked framing is not implemented. -/
theorem v11_unusable_cex :
    ∃ ctx, (establish .pinned true exOracle (exHello ["urn:ietf:params:netconf:base:1.0", "urn:ietf:params:netconf:base:1.1"])).toOption = some ctx
      ∧ ctx.version = .v11 ∧ framingUsed ≠ framingRequired (clientAdvertised true) ctx.serverCaps :=
  ⟨{ sid := 4, version := .v11, serverCaps := [.base10, .base11] }, by decide, rfl, by decide⟩

end Xml
