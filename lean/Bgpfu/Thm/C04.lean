import Bgpfu.Model.Run
/-!
# C04 — commit only after every load succeeded; any failed step aborts the run

`run n fault` is `Updater::run` with `n` updates against a server that handles the request at
position `fault.1` (1-based, in sending order: 1 = open-configuration, 2–3 = get-config,
4 … 3+n = load-configuration, 4+n = commit-configuration, 5+n = close-configuration,
6+n = close-session) as `fault.2` says. Theorems hold for every `n`, every position, every kind.
-/
namespace Run

/-- the request at position `p` was positively acknowledged -/
def acked (fault : Option (Nat × Fault)) (p : Nat) : Prop :=
  match fault with
  | none => True
  | some (fp, k) => p < fp ∨ (p = fp ∧ k = .closeAfter)

/-- every request up to position `m` was positively acknowledged -/
def allAcked (fault : Option (Nat × Fault)) (m : Nat) : Prop := ∀ p, 1 ≤ p → p ≤ m → acked fault p

theorem allAcked_none (m : Nat) : allAcked none m := by intro p _ _; trivial

theorem allAcked_some (fp : Nat) (k : Fault) (m : Nat) (hfp : 1 ≤ fp) :
    allAcked (some (fp, k)) m ↔ (m < fp ∨ (m = fp ∧ k = .closeAfter)) := by
  constructor
  · intro h
    by_cases hm : m < fp
    · exact Or.inl hm
    · right
      have h1 := h fp hfp (by omega)
      simp only [acked] at h1
      rcases h1 with h1 | ⟨_, h1⟩
      · omega
      · refine ⟨?_, h1⟩
        by_cases hmf : m = fp
        · exact hmf
        · have h2 := h (fp + 1) (by omega) (by omega)
          simp only [acked] at h2
          omega
  · intro h p hp1 hpm
    simp only [acked]
    rcases h with h | ⟨h1, h2⟩
    · left; omega
    · by_cases hp : p < fp
      · exact Or.inl hp
      · exact Or.inr ⟨by omega, h2⟩

def totalLen (phs : List (List Req)) : Nat := (phs.map List.length).sum

theorem awaitOk_some (fp : Nat) (k : Fault) (p : Nat) :
    awaitOk (some (fp, k)) p = (decide (p < fp) || (p == fp && k.isCloseAfter) || (decide (fp < p) && !k.closes)) := rfl

theorem awaits_all (fault : Option (Nat × Fault)) (start len : Nat) (hprev : allAcked fault start)
    (hfault : ∀ fp k, fault = some (fp, k) → 1 ≤ fp) :
    (((List.range len).map fun i => awaitOk fault (start + 1 + i)).all id = true) ↔ allAcked fault (start + len) := by
  cases fault with
  | none => simp [awaitOk, allAcked_none]
  | some fk =>
    obtain ⟨fp, k⟩ := fk
    have hfp := hfault fp k rfl
    rw [allAcked_some fp k _ hfp]
    rw [allAcked_some fp k _ hfp] at hprev
    simp only [List.all_map, List.all_eq_true, List.mem_range, Function.comp, id, awaitOk_some]
    constructor
    · intro h
      by_cases hlt : start + len < fp
      · exact Or.inl hlt
      · right
        rcases hprev with hp | ⟨hp1, hp2⟩
        · -- start < fp ≤ start + len : position fp is awaited in this phase
          have h1 := h (fp - start - 1) (by omega)
          have e : start + 1 + (fp - start - 1) = fp := by omega
          rw [e] at h1
          have hk : k = .closeAfter := by
            cases k <;> simp [Fault.isCloseAfter, Fault.closes] at h1 ⊢
          refine ⟨?_, hk⟩
          by_cases he : start + len = fp
          · exact he
          · have h2 := h (fp - start) (by omega)
            have e2 : start + 1 + (fp - start) = fp + 1 := by omega
            rw [e2] at h2
            subst hk
            simp [Fault.isCloseAfter, Fault.closes] at h2
            omega
        · -- fp = start, closeAfter: any further await fails
          by_cases hl : len = 0
          · exact ⟨by omega, hp2⟩
          · have h2 := h 0 (by omega)
            subst hp2
            simp [Fault.isCloseAfter, Fault.closes] at h2
            omega
    · intro h i hi
      rcases h with h | ⟨h1, h2⟩
      · have : start + 1 + i < fp := by omega
        simp [this]
      · by_cases hlt : start + 1 + i < fp
        · simp [hlt]
        · have : start + 1 + i = fp := by omega
          simp [this, h2, Fault.isCloseAfter]

/-- **Result characterisation, for any phase list**: after a prefix that was fully acknowledged,
the remaining phases succeed iff every one of their requests is positively acknowledged. -/
theorem runPhases_ok (fault : Option (Nat × Fault)) (hfault : ∀ fp k, fault = some (fp, k) → 1 ≤ fp)
    (phs : List (List Req)) (start : Nat) (trace : List Req) (hprev : allAcked fault start) :
    (runPhases fault phs start trace).2 = true ↔ allAcked fault (start + totalLen phs) := by
  induction phs generalizing start trace with
  | nil => simp [runPhases, totalLen, hprev]
  | cons ph rest ih =>
    simp only [runPhases, totalLen, List.map_cons, List.sum_cons]
    by_cases hemp : ph.isEmpty = true
    · have hl : ph.length = 0 := by simpa using hemp
      simp only [hemp, Bool.not_true, Bool.false_and, Bool.false_eq_true, if_false, hl, List.range_zero,
        List.map_nil, List.all_nil, if_true, Nat.add_zero, Nat.zero_add]
      exact ih start _ hprev
    · have hl : 0 < ph.length := by
        cases ph with
        | nil => simp at hemp
        | cons _ _ => simp
      simp only [hemp, Bool.not_false, Bool.true_and]
      by_cases hsf : sendFails (closesAt fault) (start + 1) = true
      · -- the transport was closed while position `start` was handled
        simp only [hsf, if_true, Bool.false_eq_true, false_iff]
        intro hall
        cases fault with
        | none => simp [sendFails, closesAt] at hsf
        | some fk =>
          obtain ⟨fp, k⟩ := fk
          have hfp := hfault fp k rfl
          rw [allAcked_some fp k _ hfp] at hall
          cases k <;> simp [sendFails, closesAt, Fault.closes] at hsf <;> omega
      · simp only [hsf, Bool.false_eq_true, if_false]
        have hiff := awaits_all fault start ph.length hprev hfault
        by_cases hoks : ((List.range ph.length).map fun i => awaitOk fault (start + 1 + i)).all id = true
        · simp only [hoks, if_true]
          have hacked := hiff.mp hoks
          rw [ih (start + ph.length) _ hacked]
          simp [totalLen, Nat.add_assoc]
        · simp only [hoks, Bool.false_eq_true, if_false, false_iff]
          intro hall
          apply hoks
          apply hiff.mpr
          intro p hp1 hp2
          exact hall p hp1 (by omega)

theorem totalLen_phases (n : Nat) : totalLen (phases n) = 6 + n := by
  simp [totalLen, phases]; omega

/-- **C04, success**: a run reports success iff every request of the run — open, both fetches,
every load, commit, close-db, close-session — was positively acknowledged. -/
theorem success_iff_all_acked (n : Nat) (fault : Option (Nat × Fault))
    (hfault : ∀ fp k, fault = some (fp, k) → 1 ≤ fp) :
    (run n fault).2 = true ↔ allAcked fault (6 + n) := by
  unfold run
  rw [runPhases_ok fault hfault (phases n) 0 [] (by intro p h1 h2; omega), totalLen_phases]
  simp

/-- **C04, any failed step aborts the run**: a fault at any position of the run makes it fail. -/
theorem fault_fails_run (n fp : Nat) (k : Fault) (h1 : 1 ≤ fp) (h2 : fp ≤ 6 + n)
    (hk : ¬ (fp = 6 + n ∧ k = .closeAfter)) : (run n (some (fp, k))).2 = false := by
  have := success_iff_all_acked n (some (fp, k)) (by intro a b h; cases h; exact h1)
  rw [allAcked_some fp k _ h1] at this
  cases hr : (run n (some (fp, k))).2 with
  | false => rfl
  | true =>
    have := this.mp hr
    rcases this with h | ⟨h, h'⟩
    · omega
    · exact absurd ⟨h.symm, h'⟩ hk

theorem commit_not_in_loads (n : Nat) : Req.commit ∉ (List.range n).map Req.load := by
  simp

/-- the trace a run can have without ever entering the commit phase -/
theorem commit_not_in_prefix (n : Nat) :
    commitRequested ([Req.openDb] ++ [Req.getRunning, Req.getCandidate] ++ (List.range n).map Req.load) = false := by
  simp [commitRequested]

/-- running the last three phases from position `start` with the transport already closed sends nothing -/
theorem tail_closed (fault : Option (Nat × Fault)) (start : Nat) (trace : List Req)
    (hs : sendFails (closesAt fault) (start + 1) = true) :
    (runPhases fault [[.commit], [.closeDb], [.closeSession]] start trace).1 = trace := by
  simp [runPhases, hs]

/-- **C04, commit only after every load succeeded**: if the server ever receives
`commit-configuration`, then the open, both fetches and all `n` loads were positively acknowledged
before and the connection was still up — whatever the fault, including a failing load whose reply
arrives after later loads were already sent. -/
theorem commit_requires_all_loads (n : Nat) (fault : Option (Nat × Fault))
    (hfault : ∀ fp k, fault = some (fp, k) → 1 ≤ fp)
    (h : commitRequested (run n fault).1 = true) :
    allAcked fault (3 + n) ∧ sendFails (closesAt fault) (3 + n + 1) = false := by
  unfold run phases at h
  have h0 : allAcked fault 0 := by intro p h1 h2; omega
  -- phase 1: open
  rw [runPhases] at h
  simp only [List.isEmpty_cons, Bool.not_false, Bool.true_and, List.nil_append, List.length_cons, List.length_nil] at h
  by_cases s1 : sendFails (closesAt fault) (0 + 1) = true
  · simp [s1, commitRequested] at h
  simp only [s1, Bool.false_eq_true, if_false] at h
  have i1 := awaits_all fault 0 1 h0 hfault
  have o1 : ((List.range (0 + 1)).map fun i => awaitOk fault (0 + 1 + i)).all id = true := by
    cases ho : ((List.range (0 + 1)).map fun i => awaitOk fault (0 + 1 + i)).all id with
    | true => rfl
    | false => simp only [ho, Bool.false_eq_true, if_false] at h; simp [commitRequested] at h
  simp only [o1, if_true] at h
  have a1 := i1.mp o1
  -- phase 2: the two fetches
  rw [runPhases] at h
  simp only [List.isEmpty_cons, Bool.not_false, Bool.true_and, List.length_cons, List.length_nil] at h
  by_cases s2 : sendFails (closesAt fault) (0 + (0 + 1) + 1) = true
  · simp [s2, commitRequested] at h
  simp only [s2, Bool.false_eq_true, if_false] at h
  have i2 := awaits_all fault (0 + 1) 2 a1 hfault
  have o2 : ((List.range (0 + 1 + 1)).map fun i => awaitOk fault (0 + (0 + 1) + 1 + i)).all id = true := by
    cases ho : ((List.range (0 + 1 + 1)).map fun i => awaitOk fault (0 + (0 + 1) + 1 + i)).all id with
    | true => rfl
    | false => simp only [ho, Bool.false_eq_true, if_false] at h; simp [commitRequested] at h
  simp only [o2, if_true] at h
  have a2 : allAcked fault (0 + 1 + 2) := i2.mp (by simpa using o2)
  -- phase 3: the loads
  rw [runPhases] at h
  have a3 : allAcked fault (3 + n) ∧
      commitRequested (runPhases fault [[.commit], [.closeDb], [.closeSession]] (3 + n)
        ([Req.openDb] ++ [Req.getRunning, Req.getCandidate] ++ (List.range n).map Req.load)).1 = true := by
    by_cases hn : ((List.range n).map Req.load).isEmpty = true
    · have hn0 : n = 0 := by simpa using hn
      subst hn0
      simp only [List.range_zero, List.map_nil, List.isEmpty_nil, Bool.not_true, Bool.false_and, Bool.false_eq_true,
        if_false, List.append_nil, List.length_nil, List.all_nil, if_true] at h
      exact ⟨by simpa using a2, by simpa using h⟩
    · simp only [hn, Bool.not_false, Bool.true_and, List.length_map, List.length_range] at h
      by_cases s3 : sendFails (closesAt fault) (0 + (0 + 1) + (0 + 1 + 1) + 1) = true
      · simp [s3, commitRequested] at h
      simp only [s3, Bool.false_eq_true, if_false] at h
      have i3 := awaits_all fault (0 + 1 + 2) n a2 hfault
      by_cases o3 : ((List.range n).map fun i => awaitOk fault (0 + (0 + 1) + (0 + 1 + 1) + 1 + i)).all id = true
      · simp only [o3, if_true] at h
        have a3 := i3.mp (by simpa using o3)
        have e : 0 + 1 + 2 + n = 3 + n := by omega
        rw [e] at a3
        have e2 : 0 + (0 + 1) + (0 + 1 + 1) + n = 3 + n := by omega
        rw [e2] at h
        exact ⟨a3, by simpa using h⟩
      · simp only [o3, Bool.false_eq_true, if_false] at h
        simp [commitRequested] at h
  refine ⟨a3.1, ?_⟩
  cases hs : sendFails (closesAt fault) (3 + n + 1) with
  | false => rfl
  | true =>
    have := a3.2
    rw [tail_closed fault (3 + n) _ hs, commit_not_in_prefix] at this
    cases this

/-- **C04, no commit after a fault**: a fault at or before the last load (rpc-error, malformed or
mis-numbered reply, close before or after the reply) means no commit is ever requested on that
session, and the run fails. -/
theorem no_commit_after_fault (n fp : Nat) (k : Fault) (h1 : 1 ≤ fp) (h2 : fp ≤ 3 + n) :
    commitRequested (run n (some (fp, k))).1 = false ∧ (run n (some (fp, k))).2 = false := by
  have hf : ∀ a b, some (fp, k) = some (a, b) → 1 ≤ a := by intro a b h; cases h; exact h1
  constructor
  · cases hc : commitRequested (run n (some (fp, k))).1 with
    | false => rfl
    | true =>
      have := commit_requires_all_loads n (some (fp, k)) hf hc
      rw [allAcked_some fp k _ h1] at this
      obtain ⟨hacked, hsend⟩ := this
      rcases hacked with h | ⟨h, h'⟩
      · omega
      · -- close-after on the last load: all loads acknowledged, but the commit cannot be sent
        subst h'
        simp [sendFails, closesAt, Fault.closes] at hsend
        omega
  · exact fault_fails_run n fp k h1 (by omega) (by omega)

/-! ### Non-vacuity -/

example : (run 3 none).2 = true ∧ commitRequested (run 3 none).1 = true := by decide
/-- a failing first load whose error reply arrives after the later loads were sent: all three loads
reach the server, no commit -/
example : run 3 (some (4, .rpcError)) = ([.openDb, .getRunning, .getCandidate, .load 0, .load 1, .load 2], false) := by decide
example : (run 2 (some (8, .closeAfter))).2 = true := by decide
example : (run 2 (some (6, .wrongId))).1.getLast? = some .commit ∧ (run 2 (some (6, .wrongId))).2 = false := by decide

end Run
