import Bgpfu.Lemmas.LogTable
import Bgpfu.Model.LogTableGen
/-!
# C20 — the SSH password and the TLS client key never reach the log text

`LogTableGen.table` is regenerated from /repo by `tools/logtable.py` before this file is checked
(`pre_lean` of `./check C20`): one entry per `#[tracing::instrument]` function, per `tracing::*!` call and per
error-text constructor of netconf and junos-agent, each recorded field with the class of its formatter.

The property is non-interference: whatever the two secrets are, the sites of the table write the same text — at
every verbosity and under every filter. It is proved generically (`Bgpfu.Lemmas.LogTable`: for *all* tables
without a `derivesSecret`/`unknown` field, by induction); the only table-specific step is the finite side
condition `table_allSafe`, decided by the kernel on the regenerated table. The converse
(`leak_iff_not_allSafe`) shows the side condition is exact: one unsafe field anywhere and the statement is false —
so a leaking site in /repo makes this file fail to check, it cannot be proved around.

Not covered by the theorem (tests only, op `logs`): what the dependencies (russh, rustls, tokio) log themselves,
and the fidelity of the translator's classification (spot-checked against the runtime metadata of every event).
-/
namespace LogTable
open LogTableGen

/-- side condition, decided on the generated table: no recorded field has formatter `derivesSecret` or `unknown` -/
theorem table_allSafe : allSafe table = true := by decide +kernel

/-- **C20, main theorem.** The log text written by the sites of the generated table is the same for all values of
the SSH password and the TLS client key. -/
theorem log_noninterference : ∀ s₁ s₂ : Secrets, logged table s₁ = logged table s₂ :=
  logged_indep_of_allSafe table table_allSafe

/-- … at every verbosity (`-q` … `-vvvv`, `RUST_LOG=<level>`) -/
theorem log_noninterference_at_level (lvl : Level) :
    ∀ s₁ s₂ : Secrets, logged (atLevel lvl table) s₁ = logged (atLevel lvl table) s₂ :=
  logged_indep_of_allSafe _ (allSafe_filter table _ table_allSafe)

/-- … and under every filter directive (any predicate on the site: target, module, span, level) -/
theorem log_noninterference_filtered (keep : Entry → Bool) :
    ∀ s₁ s₂ : Secrets, logged (table.filter keep) s₁ = logged (table.filter keep) s₂ :=
  logged_indep_of_allSafe _ (allSafe_filter table keep table_allSafe)

/-- The side condition is exact, for every table: the log text is independent of the secrets iff no field has an
unsafe formatter. -/
theorem noninterference_iff_allSafe (t : Table) :
    (∀ s₁ s₂ : Secrets, logged t s₁ = logged t s₂) ↔ allSafe t = true := by
  constructor
  · intro h
    cases hs : allSafe t with
    | true => rfl
    | false => exact absurd (h s₀ s₁) (logged_leak_of_not_allSafe t hs)
  · exact logged_indep_of_allSafe t

/-- non-vacuity: the table is not empty and records both secrets through a redacting / eliding formatter -/
example : table.length > 100 := by decide +kernel
example : (table.any fun e => e.fields.any fun f => f.fmt == .redacting && f.src == .password) = true := by
  decide +kernel
example : (table.any fun e => e.fields.any fun f => f.fmt == .opaque && f.src == .clientKey) = true := by
  decide +kernel

/-- non-vacuity of the model: a `String` password field (what `Session::ssh` would record if `Password` derived
`Debug`) leaks -/
def leakyPassword : Table :=
  [{ file := "netconf/src/session.rs", line := 155, lineEnd := 156, func := "Session<Ssh>::ssh", kind := .instrument,
     level := .debug, mac := "instrument",
     fields := [{ name := "password", ty := "Password", fmt := .derivesSecret, src := .password, inMessage := false,
                  why := "" }] }]
example : logged leakyPassword ⟨['a'], []⟩ ≠ logged leakyPassword ⟨['b'], []⟩ := by decide

end LogTable
