import Bgpfu.Thm.C05
/-!
# C18 — abandoning one reply future does not disturb other outstanding requests
(theorems are being added; see C05 for the shared model)
-/
namespace Session

/-- in the current code a future never waits for the requests map, so a drop never has a message in hand -/
theorem drop_never_loses_current (s : St) (f : Fid) (h : ∀ fu ∈ s.futs, ∀ m, fu.pc ≠ .waitReqB m) :
    (s.drop f).lost = s.lost := by
  unfold St.drop
  split
  · rfl
  · rename_i fu hfu
    have hmem : fu ∈ s.futs := List.mem_of_find?_eq_some hfu
    split <;> try rfl
    · split <;> simp [St.releaseRx, St.withPc] <;> split <;> rfl
    · simp [St.releaseRx, St.withPc]; split <;> rfl
    · simp [St.releaseRx, St.withPc]; split <;> rfl
    · rename_i m hpc; exact absurd hpc (h fu hmem m)

end Session
