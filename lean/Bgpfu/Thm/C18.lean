import Bgpfu.Thm.C05
import Bgpfu.Lemmas.Framing
/-!
# C18 — abandoning one reply future does not disturb other outstanding requests
Reachable states of the current code: `St.run {} acts`, `acts` arbitrary — drop actions may occur anywhere in
`acts`, so every C05 theorem already covers schedules with drops; the theorems here spell out what a
drop does. See C05 for the shared model and `Lemmas/Session.lean` for the invariant.
-/
namespace Session

/-- in the current code a future never waits for the requests map, so a drop never has a message in hand -/
theorem drop_never_loses_current (s : St) (f : Fid) (h : ∀ fu ∈ s.futs, ∀ m, fu.pc ≠ .waitReqB m) :
    (s.drop f).lost = s.lost := by
  unfold St.drop
  split
  · rfl
  · rename_i fu hfu
    have hmem : fu ∈ s.futs := List.mem_of_find?_eq_some hfu
    split <;> try rfl
    · split <;> simp [St.releaseRx, St.withPc] <;> split <;> rfl
    · simp [St.releaseRx, St.withPc]; split <;> rfl
    · simp [St.releaseRx, St.withPc]; split <;> rfl
    · rename_i m hpc; exact absurd hpc (h fu hmem m)

/-- **a drop never leaves the receive lock with the dropped future**: dropping the lock owner hands
the lock to the first waiter, or frees it if nobody waits. -/
theorem drop_releases_lock (acts : List Act) (f : Fid) (ho : (St.run {} acts).rxOwner = some f) :
    let s := St.run {} acts
    (s.drop f).rxOwner = s.rxQueue.head? ∧ (s.drop f).rxQueue = s.rxQueue.tail ∧ (s.drop f).rxOwner ≠ some f :=
  drop_owner (run_inv acts) ho

/-- … and whatever is dropped, in whatever state: afterwards the lock is again free only if nobody
waits, its owner and all waiters are live futures, the dropped one is none of them. -/
theorem drop_keeps_lock_sound (acts : List Act) (f : Fid) :
    let s := (St.run {} acts).drop f
    (s.rxOwner = none → s.rxQueue = []) ∧
    (∀ g, s.rxOwner = some g → ∃ fu ∈ s.live, fu.fid = g) ∧
    (∀ g ∈ s.rxQueue, ∃ fu ∈ s.live, fu.fid = g) ∧
    s.rxOwner ≠ some f ∧ f ∉ s.rxQueue := by
  intro s
  have hs : s = St.run {} (acts ++ [.drop f]) := by simp [St.run, St.step, s]
  have h := rx_lock_never_leaked (acts ++ [.drop f])
  rw [← hs] at h
  have hnl : ∀ fu ∈ s.live, fu.fid ≠ f := fun fu hfu => ((drop_live f (run_inv acts)).mp hfu).2
  refine ⟨h.1, ?_, ?_, ?_, ?_⟩
  · intro g hg; obtain ⟨fu, h1, h2, _⟩ := h.2.1 g hg; exact ⟨fu, h1, h2⟩
  · intro g hg; obtain ⟨_, fu, h1, h2, _⟩ := h.2.2.1 g hg; exact ⟨fu, h1, h2⟩
  · intro hg; obtain ⟨fu, h1, h2, _⟩ := h.2.1 f hg; exact hnl fu h1 h2
  · intro hg; obtain ⟨_, fu, h1, h2, _⟩ := h.2.2.1 f hg; exact hnl fu h1 h2

/-- **a drop loses nothing** (current code): no message is lost, the request map and the transport
are untouched — in every reachable state, for every future, at whatever suspension point. -/
theorem drop_loses_nothing (acts : List Act) (f : Fid) :
    let s := St.run {} acts
    (s.drop f).lost = s.lost ∧ (s.drop f).slots = s.slots ∧ (s.drop f).inbox = s.inbox := by
  intro s
  have e : s = St.run {} acts := rfl
  clear_value s; subst e
  have hinv : Inv (St.run {} acts) := run_inv acts
  refine ⟨drop_never_loses_current _ f ?_, (drop_frame _ f).1, (drop_frame _ f).2.1⟩
  intro fu hfu m
  exact (hinv.1.noWaitReq fu.fid fu (hinv.find hfu)).2 m

/-- **survivors complete**: drop any futures `ds` in a reachable `Clean` state (C05 `all_complete`);
the state stays `Clean`, its live futures are exactly the live futures that were not dropped, and
fair rounds complete every one of them with its own reply. -/
theorem survivors_complete (acts : List Act) (ds : List Fid) (hc : Clean (St.run {} acts)) (n : Nat)
    (hn : (St.run {} acts).inbox.length + (St.run {} acts).live.length ≤ n) :
    let s := St.run {} acts
    let s' := ds.foldl St.drop s
    Clean s' ∧ (∀ fu, fu ∈ s'.live ↔ fu ∈ s.live ∧ fu.fid ∉ ds) ∧
    (St.rounds n s').live = [] ∧
    ∀ f0 ∈ s.live, f0.fid ∉ ds → ∀ f ∈ (St.rounds n s').futs, f.fid = f0.fid →
      ∃ m, s.reply f0.id = some m ∧ m.id = some f0.id ∧ f.pc = .done (.ok m.tag) := by
  intro s s'
  have e : s = St.run {} acts := rfl
  clear_value s; subst e
  have hinv : Inv (St.run {} acts) := run_inv acts
  have hs' : s' = St.run {} (acts ++ ds.map .drop) := by rw [run_append, ← drops_run]
  have hclean : Clean s' := drops_clean ds hinv hc
  have hlive : ∀ fu, fu ∈ s'.live ↔ fu ∈ (St.run {} acts).live ∧ fu.fid ∉ ds := fun fu => drops_live ds hinv
  have hframe := drops_frame ds (St.run {} acts)
  have hlen : s'.inbox.length + s'.live.length ≤ n := by
    have h1 : s'.live.length ≤ (St.run {} acts).live.length := drops_live_length ds hinv
    have h2 : s'.inbox.length = (St.run {} acts).inbox.length := by rw [show s'.inbox = _ from hframe.1]
    omega
  have hall := all_complete (acts ++ ds.map .drop) (hs' ▸ hclean) n (hs' ▸ hlen)
  rw [← hs'] at hall
  refine ⟨hclean, hlive, hall.1, ?_⟩
  intro f0 hf0 hnd f hf hfid
  obtain ⟨m, hm, hid, hpc⟩ := hall.2.2 f0 ((hlive f0).mpr ⟨hf0, hnd⟩) f hf hfid
  refine ⟨m, ?_, hid, hpc⟩
  have h1 : s'.inbox = (St.run {} acts).inbox := hframe.1
  have h2 : s'.slots = (St.run {} acts).slots := hframe.2
  simpa [St.reply, St.slot, h1, h2] using hm

/-- **the session stays usable**: in every reachable state — whatever was dropped before — with no
`rpc()` blocked, the transport open and writable, a new `rpc()` succeeds: it gets a fresh
message-id (never sent before, no other future has it), a fresh pending slot, and a new reply
future in `start`; nothing else changes. -/
theorem session_usable_after_drop (acts : List Act) (hr : (St.run {} acts).rpc = none)
    (hc : (St.run {} acts).closed = false) (hg : (St.run {} acts).gateOpen = true) :
    let s := St.run {} acts
    s.send true = ({ s with nextId := s.nextId + 1, slots := s.slots ++ [(s.nextId + 1, .pending)],
                            sent := s.sent ++ [s.nextId + 1],
                            futs := s.futs ++ [{ fid := s.nextFid, id := s.nextId + 1, pc := .start }],
                            nextFid := s.nextFid + 1 }, .sendOk s.nextFid (s.nextId + 1)) ∧
    (s.nextId + 1) ∉ s.sent ∧ (∀ fu ∈ s.futs, fu.id ≠ s.nextId + 1 ∧ fu.fid ≠ s.nextFid) ∧
    s.slot (s.nextId + 1) = none ∧ (s.send true).1.slot (s.nextId + 1) = some .pending :=
  open_send (run_inv acts) hr hc hg

/-! non-vacuity: a reachable state in which the lock owner is dropped while another future waits -/
example : let s := St.run {} [.send true, .send true, .poll 0, .poll 1]
    s.rxOwner = some 0 ∧ s.rxQueue = [1] ∧ (s.drop 0).rxOwner = some 1 ∧ (s.drop 0).rxQueue = [] := by decide

/-- a clean reachable state, two of three futures dropped (one of them reading), the survivor completes -/
example : let s := St.run {} [.send true, .send true, .send true, .poll 0, .poll 1, .deliver ⟨some 1, 11, true⟩,
    .deliver ⟨some 2, 22, true⟩, .deliver ⟨some 3, 33, true⟩]
    Clean s ∧ ((St.rounds 6 ([0, 1].foldl St.drop s)).futs.map (·.pc)) = [.dropped, .dropped, .done (.ok 33)] := by
  decide

end Session


/-! ## The transport below the session: abandoning a `recv()` in the middle of a message

A reply future that is dropped while it is the reader is suspended inside the transport's
`recv()` (`read_buf().await`). The TLS / CLI receiver keeps its buffer in the handle, so what it had
read so far is still there for the next reader. In the framing model a `recv` that consumed the reads
`r₁` and is then abandoned is `recv … = .pending buf'`; the next call starts from `buf'`. -/
namespace Framing

theorem specRecv_pending_append (r1 r2 : List Read) (buf buf' : List Byte)
    (h : specRecv r1 buf = .pending buf') : specRecv (r1 ++ r2) buf = specRecv r2 buf' := by
  induction r1 generalizing buf with
  | nil =>
    simp only [specRecv] at h
    cases hf : find marker buf with
    | some i => simp [hf] at h
    | none =>
      simp only [hf, Out.pending.injEq] at h
      subst h
      rfl
  | cons r rs ih =>
    simp only [specRecv] at h
    cases hf : find marker buf with
    | some i => simp [hf] at h
    | none =>
      simp only [hf] at h
      cases r with
      | data bs =>
        simp only [List.cons_append, specRecv, hf]
        exact ih _ h
      | ioErr => simp at h
      | eof => simp at h

/-- **cancel-safety of `Receiver::recv`** (current code): abandoning a call that has consumed the
reads `r₁` without completing a message, and calling `recv` again, gives exactly what one
uninterrupted call would have given on `r₁ ++ r₂` — the same message, the same remaining buffer,
the same unread input — for every buffer content and every segmentation. -/
theorem recv_cancel_safe (buf buf' : List Byte) (r1 r2 : List Read)
    (h : recv .fixed buf r1 = .pending buf') :
    recv .fixed buf' r2 = recv .fixed buf (r1 ++ r2) := by
  rw [recv_eq_spec] at h
  rw [recv_eq_spec, recv_eq_spec]
  exact (specRecv_pending_append r1 r2 buf buf' h).symm

/-- the buffer after a sequence of abandoned calls, each of which consumed one batch of reads
without completing a message (`none` if one of them did complete or fail: it was not abandoned
in the middle of a message then) -/
def afterAbandoned : List Byte → List (List Read) → Option (List Byte)
  | buf, [] => some buf
  | buf, b :: bs =>
    match recv .fixed buf b with
    | .pending buf' => afterAbandoned buf' bs
    | _ => none

/-- … and so for any number of abandoned calls in a row -/
theorem recv_cancel_safe_many (buf buf' : List Byte) (batches : List (List Read)) (r : List Read)
    (h : afterAbandoned buf batches = some buf') :
    recv .fixed buf' r = recv .fixed buf (batches.flatten ++ r) := by
  induction batches generalizing buf with
  | nil => simp only [afterAbandoned, Option.some.injEq] at h; subst h; simp
  | cons b bs ih =>
    simp only [afterAbandoned] at h
    cases hb : recv .fixed buf b with
    | pending b' =>
      simp only [hb] at h
      rw [ih b' h, List.flatten_cons, List.append_assoc]
      exact recv_cancel_safe buf b' b (bs.flatten ++ r) hb
    | msg m b' rest => simp [hb] at h
    | err b' => simp [hb] at h
    | spin b' => simp [hb] at h

/-- non-vacuity: a reply cut in three, the reader abandoned after the first and after the second piece -/
example : afterAbandoned [] [[.data [60, 97]], [.data [47, 62, 93, 93]]] = some [60, 97, 47, 62, 93, 93] ∧
    recv .fixed [60, 97, 47, 62, 93, 93] [.data [62, 93, 93, 62]] = .msg [60, 97, 47, 62, 93, 93, 62, 93, 93, 62] [] [] := by
  decide

/-- what the theorem excludes: a receiver whose buffer does not survive the abandoned call (e.g. one
that moves the buffer into the future) hands the next reader only the tail of the message -/
theorem lost_buffer_cex :
    recv .fixed [] [.data [62, 93, 93, 62]] ≠ recv .fixed [] ([.data [60, 97, 47, 62, 93, 93]] ++ [.data [62, 93, 93, 62]]) := by
  decide

end Framing
