import Bgpfu.Lemmas.Policy
import Bgpfu.Model.FetchInstalled
/-!
# C02 — installed policies never accept routes outside the evaluated set (no fail-open)

Property theorems only.  The statements hold for the repaired **and** the pinned writer
(`c.skipEmptyFamily` arbitrary): the empty term of defect D9 has no accept action. They need the
reader to see the true policy names (`c.unescapeNames = true`); for raw names see `raw_names_stale_cex`.
The domain is the agent's own states (`AgentState`, C01); `foreign_state_cex` shows why.
-/
namespace Policy

/-- what C02 demands of the configuration `c'` right after update `u` has been loaded -/
def UpdateSafe (ev : List (Str × Evaluated)) (c' : JCfg) : Update → Prop
  | .delete n => alGet n ev = none ∧ alGet n c' = none
  | .update n e d4 d6 =>
    alGet n ev = some ⟨e, some (d4.new, d6.new)⟩ ∧
      ∃ p, alGet n c' = some p ∧ safeFor p d4.new d6.new = true

/-- core: any duplicate-free selection of the emitted updates, loaded in any order -/
theorem updates_safe (c : Cfg) (hc : c.unescapeNames = true) {cfg : JCfg} (hs : AgentState cfg)
    (ev : List (Str × Evaluated)) {inst : List (Str × Installed)} (hi : readInstalled c cfg = .ok inst)
    (us : List Update) (hn : (us.map Update.name).Nodup) (hsub : ∀ u ∈ us, u ∈ compare ev inst) :
    ∃ c', applyAll cfg (us.map (render c)) = .ok c' ∧ (∀ u ∈ us, UpdateSafe ev c' u) ∧
      ∀ n, n ∉ us.map Update.name → alGet n c' = alGet n cfg := by
  rw [readInstalled_congr c hc, readInstalled_agentState hs] at hi
  simp only [Except.ok.injEq] at hi
  subst hi
  obtain ⟨c', h1, h2, h3, _, _⟩ := applyUpdates c hs ev us hn hsub
  refine ⟨c', h1, ?_, h3⟩
  intro u hu
  have hcmp := (mem_compare.1 (hsub u hu)).2
  have hres := h2 u hu
  cases u with
  | delete n =>
    simp only [Update.name] at hcmp hres
    rw [delete_applies c hcmp] at hres
    simp only [Except.ok.injEq] at hres
    exact ⟨(compareOne_delete_inv hcmp).2.1, hres.symm⟩
  | update n e d4 d6 =>
    simp only [Update.name] at hcmp hres
    obtain ⟨p', a1, a2, a3, a4, a5, a6⟩ := update_applies c hs hcmp
    rw [a1] at hres
    simp only [Except.ok.injEq] at hres
    exact ⟨(compareOne_update_inv hcmp).2.1, p', hres.symm, safeFor_of_newOk a2 a3 a4 a5 a6⟩

/-- **Each update on its own.** Applied to the configuration the agent fetched, every single update
the agent emits loads without error and leaves a policy in which each accepting term is restricted
to one address family and to explicit route-filters that all belong to the evaluated set of that
family, and which ends in an unconditional reject (`safeFor`); a delete is only ever sent for a
name that is not a candidate. -/
theorem each_update_safe (c : Cfg) (hc : c.unescapeNames = true) {cfg : JCfg} (hs : AgentState cfg)
    (ev : List (Str × Evaluated)) {inst : List (Str × Installed)} (hi : readInstalled c cfg = .ok inst)
    {u : Update} (hu : u ∈ compare ev inst) :
    ∃ c', applyPatch cfg (render c u) = .ok c' ∧ UpdateSafe ev c' u := by
  obtain ⟨c', h1, h2, _⟩ := updates_safe c hc hs ev hi [u] (by simp) (by simpa using hu)
  refine ⟨c', ?_, h2 u (by simp)⟩
  simp only [List.map_cons, List.map_nil, applyAll] at h1
  cases hp : applyPatch cfg (render c u) with
  | error e => simp [hp] at h1
  | ok x => simpa [hp] using h1

/-- **Every prefix of every permutation** ("whether or not later steps of the run succeed"): for
every order `us` in which the updates of a run may be emitted and every prefix `pre` of it, loading
`pre` succeeds, every policy touched so far is safe, and every other policy is still exactly what
the agent fetched. -/
theorem every_prefix_safe (c : Cfg) (hc : c.unescapeNames = true) {cfg : JCfg} (hs : AgentState cfg)
    (ev : List (Str × Evaluated)) {inst : List (Str × Installed)} (hi : readInstalled c cfg = .ok inst)
    (us pre : List Update) (hp : us.Perm (compare ev inst)) (hpre : pre <+: us) :
    ∃ c', applyAll cfg (pre.map (render c)) = .ok c' ∧ (∀ u ∈ pre, UpdateSafe ev c' u) ∧
      ∀ n, n ∉ pre.map Update.name → alGet n c' = alGet n cfg := by
  have hnd : (us.map Update.name).Nodup :=
    (List.Perm.nodup_iff (hp.map Update.name)).2 (compare_names_nodup ev _)
  have hsl : (pre.map Update.name).Sublist (us.map Update.name) := (hpre.sublist).map _
  exact updates_safe c hc hs ev hi pre (List.Nodup.sublist hsl hnd)
    (fun u hu => hp.mem_iff.1 (hpre.sublist.subset hu))

/-- **Semantic form.** A policy satisfying `safeFor` accepts a route only if an evaluated range of
the route's own address family matches it (first-match evaluation of the reference Junos model with
protocol default *accept*). -/
theorem accept_subset {p : JPolicy} {a b : List Range} (h : safeFor p a b = true) (r : Route)
    (hacc : accepts p r = true) : ∃ g ∈ (if r.v6 then b else a), g.matchesRoute r = true := by
  unfold safeFor at h
  simp only [Bool.and_eq_true, List.all_eq_true, decide_eq_true_eq] at h
  obtain ⟨⟨⟨h1, h2⟩, h3⟩, h4⟩ := h
  obtain ⟨g, hg, hm⟩ := (accepts_iff h1 h4 r).1 hacc
  cases hr : r.v6
  · rw [hr] at hg; exact ⟨g, by simpa using h2 g hg, hm⟩
  · rw [hr] at hg; exact ⟨g, by simpa using h3 g hg, hm⟩

/-- the only place the agent writes to -/
def stmtPath : List String := ["configuration", "policy-options", "policy-statement"]

/-- **Nothing outside policy statements.** Every element of every payload is the
`policy-statement` element, one of its two ancestors, or a descendant of it. -/
theorem payload_rooted (c : Cfg) (u : Update) :
    ∀ path ∈ (render c u).paths, stmtPath <+: path ∨ path <+: stmtPath := by
  have key : ∀ p : PStmt, ∀ path ∈ p.paths, stmtPath <+: path ∨ path <+: stmtPath := by
    intro p path hp
    unfold PStmt.paths at hp
    simp only [List.mem_append, List.mem_cons, List.not_mem_nil, or_false, List.mem_flatMap] at hp
    rcases hp with ((rfl | rfl | rfl | rfl) | ⟨t, _, ht⟩) | hr
    · exact Or.inr ⟨["policy-options", "policy-statement"], rfl⟩
    · exact Or.inr ⟨["policy-statement"], rfl⟩
    · exact Or.inl ⟨[], rfl⟩
    · exact Or.inl ⟨["name"], rfl⟩
    · left
      unfold PTerm.paths at ht
      simp only [List.mem_append, List.mem_cons, List.not_mem_nil, or_false] at ht
      rcases ht with ((rfl | rfl) | hf) | ha
      · exact ⟨["term"], rfl⟩
      · exact ⟨["term", "name"], rfl⟩
      · cases hfr : t.frm with
        | none => simp [hfr] at hf
        | some f =>
          simp only [hfr, List.mem_append, List.mem_cons, List.not_mem_nil, or_false, List.mem_flatMap] at hf
          rcases hf with (rfl | hfam) | ⟨_, _, rfl | rfl | rfl⟩
          · exact ⟨["term", "from"], rfl⟩
          · cases hff : f.family with
            | none => simp [hff] at hfam
            | some x => simp only [hff, List.mem_cons, List.not_mem_nil, or_false] at hfam; subst hfam
                        exact ⟨["term", "from", "family"], rfl⟩
          · exact ⟨["term", "from", "route-filter"], rfl⟩
          · exact ⟨["term", "from", "route-filter", "address"], rfl⟩
          · exact ⟨["term", "from", "route-filter", "prefix-length-range"], rfl⟩
      · split at ha
        · simp only [List.mem_cons, List.not_mem_nil, or_false] at ha
          rcases ha with rfl | rfl
          · exact ⟨["term", "then"], rfl⟩
          · exact ⟨["term", "then", "accept"], rfl⟩
        · simp at ha
    · left
      split at hr
      · simp only [List.mem_cons, List.not_mem_nil, or_false] at hr
        rcases hr with rfl | rfl
        · exact ⟨["then"], rfl⟩
        · exact ⟨["then", "reject"], rfl⟩
      · simp at hr
  exact key _

/-! ### Non-vacuity and the limits of the statement -/

def c2P1 : Str := [112, 49]
def c2A : Range := ⟨false, 3221225984, 24, 24, 32⟩
def c2B : Range := ⟨false, 167772160, 8, 16, 24⟩
def c2C : Range := ⟨true, 42540766411282592856903984951653826560, 32, 48, 64⟩

/-- an installed dual-stack policy whose IPv6 family becomes empty and whose IPv4 set changes
partially: with the pinned and with the repaired writer the single update yields a safe policy
accepting exactly the new IPv4 set -/
example :
    ([Cfg.pinned, Cfg.fixed].all fun c =>
      let c := { c with unescapeNames := true }
      match run c [(c2P1, ⟨none, [(inet, ⟨some inet, [c2A], true⟩), (inet6, ⟨some inet6, [c2C], true⟩)], true⟩)]
          [(c2P1, ⟨[65], some ([c2B], [])⟩)] with
      | .ok c1 => (match alGet c2P1 c1 with
          | some p => safeFor p [c2B] [] && seteq (acceptSet .v4 p) [c2B] && (acceptSet .v6 p).isEmpty
          | none => false)
      | .error _ => false) = true := by decide

/-- **Outside the domain.** A readable configuration the agent would never produce — an accepting
`inet` term without route-filters — is *not* repaired by a run that evaluates the family to the empty
set (the reader reports "nothing installed", so nothing is deleted): the policy keeps accepting
every IPv4 route. C02 is a statement about the agent's own ephemeral instance. -/
theorem foreign_state_cex :
    (match run .fixed [(c2P1, ⟨none, [(inet, ⟨some inet, [], true⟩)], true⟩)] [(c2P1, ⟨[65], some ([], [])⟩)] with
     | .ok c1 => (match alGet c2P1 c1 with
         | some p => accepts p ⟨false, 3221225984, 24⟩ && !safeFor p [] []
         | none => false)
     | .error _ => false) = true := by decide

/-- "a&b" -/
def c2Amp : Str := [97, 38, 98]

/-- **D15 (names) is a fail-open.** With raw (still escaped) names the installed policy is not
recognised on the next run; its update is rendered against "nothing installed", so the ranges that
are no longer evaluated are never deleted and the policy accepts routes outside the evaluated set. -/
theorem raw_names_stale_cex :
    let c : Cfg := { Cfg.fixed with unescapeNames := false }
    (match run c [] [(xmlEsc c2Amp, ⟨[65], some ([c2A], [])⟩)] with
     | .ok c1 =>
       (match plan c c1 [(xmlEsc c2Amp, ⟨[65], some ([c2B], [])⟩)] with
        | .ok ps => (match applyAll c1 (ps.take 1) with
            | .ok c2 => (match alGet (xmlEsc c2Amp) c2 with
                | some p => !safeFor p [c2B] [] && accepts p ⟨false, 3221225984, 24⟩
                | none => false)
            | .error _ => false)
        | .error _ => false)
     | .error _ => false) = true := by decide

end Policy

/-! ### the installed reader is fail-closed on route-filters it cannot represent

A `route-filter` whose match type is not `prefix-length-range` (`orlonger`, `exact`, `upto`, …), or
that holds an element the reader does not know, accepts routes no evaluated set accounts for. The
event-level reader (`Model/FetchInstalled`, fetch.rs) refuses such a filter — and with it the whole
read, so nothing is planned (C02 rule `specx`; correspondence family `foreign.raw.*`). It never
*skips* it: skipping would leave the filter installed while the term is re-asserted. -/
namespace Xml

/-- a `<choice-ident>` with any text other than `prefix-length-range` fails the read, whatever came
before it in the filter and whatever follows -/
theorem routeFilter_other_match_type_fails (fuel : Nat) (endRaw : String) (st : RfSt) (t : Tag)
    (rest r : List Ev) (s : String)
    (haddr : (t.is XNM "address" && st.address.isNone) = false)
    (hid : (t.is XNM "choice-ident" && st.plr.isNone) = true)
    (hr : readText t rest = .ok (s, r)) (hne : (trim s != "prefix-length-range") = true) :
    routeFilterLoop (fuel + 1) endRaw st (.start t :: rest) = .error .other := by
  simp [routeFilterLoop, haddr, hid, hr, hne]

/-- an empty element inside a route-filter (`<orlonger/>`, `<exact/>` …) fails the read -/
theorem routeFilter_flag_element_fails (fuel : Nat) (endRaw : String) (st : RfSt) (t : Tag) (rest : List Ev) :
    routeFilterLoop (fuel + 1) endRaw st (.empty t :: rest) = .error .unexpected := by
  simp [routeFilterLoop]

/-- … as does any start tag that is neither the (first) address nor the (first) choice-ident -/
theorem routeFilter_unknown_element_fails (fuel : Nat) (endRaw : String) (st : RfSt) (t : Tag) (rest : List Ev)
    (haddr : (t.is XNM "address" && st.address.isNone) = false)
    (hid : (t.is XNM "choice-ident" && st.plr.isNone) = false) :
    routeFilterLoop (fuel + 1) endRaw st (.start t :: rest) = .error .unexpected := by
  simp [routeFilterLoop, haddr, hid]

end Xml
