import Bgpfu.Model.Readers
/-!
The NETCONF / Junos reply grammar as an abstract syntax, and its rendering as an event list.
This is the *specification side* of C08 (and the generator side of C13/C14): the theorems
quantify over all documents of this grammar — any number, order and severity of `rpc-error`
children combined with any positive indication, comments anywhere between children, arbitrary
inert content inside leaves. Import-free apart from the model.
-/
namespace Xml

/-- events that `read_to_end name` simply passes over -/
def Inert (name : String) : List Ev → Prop
  | [] => True
  | .error :: _ => False
  | .eof :: _ => False
  | .start t :: rest => t.raw ≠ name ∧ Inert name rest
  | .end raw :: rest => raw ≠ name ∧ Inert name rest
  | _ :: rest => Inert name rest

def Inert.dec (name : String) : (l : List Ev) → Decidable (Inert name l)
  | [] => isTrue trivial
  | .error :: _ => isFalse (by simp [Inert])
  | .eof :: _ => isFalse (by simp [Inert])
  | .start t :: rest => by
    have := Inert.dec name rest
    simp only [Inert]; exact inferInstance
  | .end raw :: rest => by
    have := Inert.dec name rest
    simp only [Inert]; exact inferInstance
  | .empty _ :: rest => by have := Inert.dec name rest; simp only [Inert]; exact inferInstance
  | .text _ :: rest => by have := Inert.dec name rest; simp only [Inert]; exact inferInstance
  | .cdata :: rest => by have := Inert.dec name rest; simp only [Inert]; exact inferInstance
  | .comment :: rest => by have := Inert.dec name rest; simp only [Inert]; exact inferInstance
  | .decl :: rest => by have := Inert.dec name rest; simp only [Inert]; exact inferInstance
  | .pi :: rest => by have := Inert.dec name rest; simp only [Inert]; exact inferInstance
  | .doctype :: rest => by have := Inert.dec name rest; simp only [Inert]; exact inferInstance

instance (name : String) (l : List Ev) : Decidable (Inert name l) := Inert.dec name l

def baseTag (name : String) (span : Option String) : Tag :=
  { ns := .bound BASE, lname := name, raw := name, attrs := [], span := span }

/-- a leaf element `<name>…</name>` in the base namespace with raw source text `span` -/
def leaf (name span : String) (inner : List Ev) : List Ev :=
  .start (baseTag name (some span)) :: inner ++ [.end name]

structure ErrSpec where
  ty : ErrType
  tySpan : String
  tyInner : List Ev
  tag : String
  tagSpan : String
  tagInner : List Ev
  sev : Severity
  sevSpan : String
  sevInner : List Ev
  message : Option (String × List Ev)      -- optional <error-message>: span, inner events
  appTag : Option (String × List Ev)       -- optional <error-app-tag>
  raw : String                             -- qualified name of the rpc-error element (e.g. "nc:rpc-error")

/-- the leaves hold the text they claim to, and contain nothing `read_to_end` trips over -/
structure ErrSpec.WF (e : ErrSpec) : Prop where
  ty : parseErrType (trim e.tySpan) = some e.ty
  tag : parseErrTag (trim e.tagSpan) = some e.tag
  sev : parseSeverity (trim e.sevSpan) = some e.sev
  tyI : Inert "error-type" e.tyInner
  tagI : Inert "error-tag" e.tagInner
  sevI : Inert "error-severity" e.sevInner
  msgI : ∀ p, e.message = some p → Inert "error-message" p.2
  appI : ∀ p, e.appTag = some p → Inert "error-app-tag" p.2

def ErrSpec.value (e : ErrSpec) : RpcError :=
  { ty := e.ty, tag := e.tag, severity := e.sev,
    appTag := e.appTag.map (fun p => trim p.1), path := none,
    message := e.message.map (fun p => trim p.1), info := [] }

def optLeaf (name : String) : Option (String × List Ev) → List Ev
  | none => []
  | some (s, inner) => leaf name s inner

def ErrSpec.fields (e : ErrSpec) : List Ev :=
  leaf "error-type" e.tySpan e.tyInner ++ leaf "error-tag" e.tagSpan e.tagInner ++
  leaf "error-severity" e.sevSpan e.sevInner ++ optLeaf "error-app-tag" e.appTag ++
  optLeaf "error-message" e.message

def ErrSpec.render (e : ErrSpec) : List Ev :=
  .start { ns := .bound BASE, lname := "rpc-error", raw := e.raw, attrs := [], span := none } ::
    e.fields ++ [.end e.raw]

/-- children of `<load-configuration-results>` -/
inductive Inner where
  | ok
  | err (e : ErrSpec)
  | count (span : String) (inner : List Ev)
  | comment

/-- children of `<rpc-reply>` -/
inductive Top where
  | ok
  | err (e : ErrSpec)
  | data (span : String) (inner : List Ev)
  | comment
  | results (raw : String) (cs : List Inner)

def okTag : Tag := baseTag "ok" none

def Inner.render : Inner → List Ev
  | .ok => [.empty okTag]
  | .err e => e.render
  | .count s inner => leaf "load-error-count" s inner
  | .comment => [.comment]

def Inner.WF : Inner → Prop
  | .err e => e.WF
  | .count _ inner => Inert "load-error-count" inner
  | _ => True

def Top.render : Top → List Ev
  | .ok => [.empty okTag]
  | .err e => e.render
  | .data s inner => leaf "data" s inner
  | .comment => [.comment]
  | .results raw cs =>
    .start { ns := .bound BASE, lname := "load-configuration-results", raw := raw, attrs := [], span := none } ::
      cs.flatMap Inner.render ++ [.end raw]

def Top.WF : Top → Prop
  | .err e => e.WF
  | .data _ inner => Inert "data" inner
  | .results _ cs => ∀ c ∈ cs, c.WF
  | _ => True

/-- a complete reply message: `<rpc-reply message-id=…>` children `</rpc-reply>` EOF -/
def replyDoc (raw : String) (idAttr : String) (extraAttrs : List AttrItem) (cs : List Top) : List Ev :=
  .start { ns := .bound BASE, lname := "rpc-reply", raw := raw,
           attrs := .ok { key := "message-id", ns := .unbound, lname := "message-id", value := some idAttr } :: extraAttrs,
           span := none } ::
    cs.flatMap Top.render ++ [.end raw, .eof]

/-- the same message with `Misc` around the root element (XML `document ::= prolog element Misc*`):
`pre` comments in front of `<rpc-reply>` and `post` comments between `</rpc-reply>` and EOF
(white space there never reaches the event list: the tokenizer trims text) -/
def replyDocMisc (pre post : Nat) (raw : String) (idAttr : String) (extraAttrs : List AttrItem) (cs : List Top) : List Ev :=
  List.replicate pre .comment ++
    (.start { ns := .bound BASE, lname := "rpc-reply", raw := raw,
              attrs := .ok { key := "message-id", ns := .unbound, lname := "message-id", value := some idAttr } :: extraAttrs,
              span := none } ::
      cs.flatMap Top.render ++ .end raw :: List.replicate post .comment ++ [.eof])

theorem replyDocMisc_zero (raw : String) (idAttr : String) (extraAttrs : List AttrItem) (cs : List Top) :
    replyDocMisc 0 0 raw idAttr extraAttrs cs = replyDoc raw idAttr extraAttrs cs := by
  simp [replyDocMisc, replyDoc]

def Top.errValue? : Top → Option RpcError
  | .err e => some e.value
  | _ => none
def Inner.errValue? : Inner → Option RpcError
  | .err e => some e.value
  | _ => none

def Top.isErrorSeverity : Top → Bool
  | .err e => e.sev == .error
  | _ => false
def Inner.isErrorSeverity : Inner → Bool
  | .err e => e.sev == .error
  | _ => false

end Xml

namespace Xml

/-! ### child-level semantics of the four reply readers (what each reader makes of a document of
the grammar). The refinement theorems in `Bgpfu.Lemmas.Readers` show the event-level loops compute
exactly these; the C08 statements are then proved about them. -/

def emptyAbs (this : Bool) (errors : List RpcError) : List Top → Except Err Body
  | [] => if this then .ok .ok else if !errors.isEmpty then .ok (.errs errors) else .error .missing
  | .ok :: cs => if !this && errors.isEmpty then emptyAbs true errors cs else .error .unexpected
  | .err e :: cs => if !this then emptyAbs this (errors ++ [e.value]) cs else .error .unexpected
  | .comment :: cs => emptyAbs this errors cs
  | .data .. :: _ => .error .unexpected
  | .results .. :: _ => .error .unexpected

def dataAbs (this : Option String) (errors : List RpcError) : List Top → Except Err Body
  | [] => match this with
    | some s => .ok (.data s)
    | none => if !errors.isEmpty then .ok (.errs errors) else .error .missing
  | .data s _ :: cs => if this.isNone && errors.isEmpty then dataAbs (some s) errors cs else .error .unexpected
  | .err e :: cs => if this.isNone then dataAbs this (errors ++ [e.value]) cs else .error .unexpected
  | .comment :: cs => dataAbs this errors cs
  | .ok :: _ => .error .unexpected
  | .results .. :: _ => .error .unexpected

def bareAbs (errors : List RpcError) : List Top → Except Err Body
  | [] => if errors.isEmpty then .ok .ok else .ok (.errs errors)
  | .err e :: cs => bareAbs (errors ++ [e.value]) cs
  | .comment :: cs => bareAbs errors cs
  | .ok :: _ => .error .unexpected
  | .data .. :: _ => .error .unexpected
  | .results .. :: _ => .error .unexpected

def loadInnerAbs (c : RCfg) (st : LoadSt) : List Inner → Except Err LoadSt
  | [] => .ok st
  | .ok :: cs =>
    if !st.this && (!c.loadOkGuard || !hasErrorSeverity st.errors) then loadInnerAbs c { st with this := true } cs
    else .error .unexpected
  | .err e :: cs =>
    if !st.this then loadInnerAbs c { st with errors := st.errors ++ [e.value] } cs else .error .unexpected
  | .count s _ :: cs =>
    if !st.this then (match parseUsize (c.tok s) with
      | some n => loadInnerAbs c { st with count := some n } cs
      | none => .error .other)
    else .error .unexpected
  | .comment :: cs => loadInnerAbs c st cs

def loadAbs (c : RCfg) (st : LoadSt) : List Top → Except Err Body
  | [] =>
    if st.this then .ok .ok
    else match st.count with
      | some n => if st.errors.length == n then .ok (.errs st.errors) else .error .missing
      | none => .error .missing
  | .results _ cs :: rest =>
    if !st.this then (match loadInnerAbs c st cs with
      | .ok st' => loadAbs c st' rest
      | .error e => .error e)
    else .error .unexpected
  | .comment :: rest => loadAbs c st rest
  | .ok :: _ => .error .unexpected
  | .err _ :: _ => .error .unexpected
  | .data .. :: _ => .error .unexpected

def replyAbs (c : RCfg) : ReplyKind → List Top → Except Err Body
  | .empty, cs => emptyAbs false [] cs
  | .data, cs => dataAbs none [] cs
  | .bare, cs => bareAbs [] cs
  | .load, cs => loadAbs c {} cs

def outcomeOf : Except Err Body → Outcome
  | .ok b => b.intoResult
  | .error e => .err e

end Xml
