import Bgpfu.Model.Fetch
import Bgpfu.Spec.ReplyGrammar
/-!
The running configuration as the agent fetches it (`<data><configuration><policy-options>
<policy-statement>*`), as an abstract syntax, its rendering as an event list, and the
**specification** `select` of C16 written from the property text: a statement is selected iff it is
active, carries a `bgpfu-fltr:` annotation and consists of a name and a default reject action.
`select` looks at a statement as a whole (`any` / `filterMap` / `getLast?` over the attribute list,
counting over the body); it shares with the reader model only the string-level definition of "an
annotation of the form `bgpfu-fltr: <expression>`" (`annotationRaw`) and the library oracles.

Quantification: a statement has an arbitrary attribute list (any order, duplicates, unrelated
attributes — e.g. the duplicate `xmlns:jcmd` Junos emits —, any number of `jcmd:active` and
`jcmd:comment` attributes with any values) and an arbitrary body (names, `then` elements with
arbitrary children, other elements with arbitrary inert content, empty elements, text, CDATA,
comments, in any order and number). Import-free apart from the model.
-/
namespace Xml

/-! ### abstract syntax -/

/-- children of a `<then>` element -/
inductive ThenItem where
  | empty (t : Tag)                      -- `<reject/>`, `<accept/>`, `<next-policy/>` …
  | elem (t : Tag) (inner : List Ev)     -- `<x>…</x>`
  | text (s : String)
  | cdata
  | comment
  deriving DecidableEq, Repr, Inhabited

/-- children of a `<policy-statement>` element -/
inductive BodyItem where
  | name (raw : String) (attrs : List AttrItem) (span : String) (inner : List Ev)   -- `<name>span</name>`
  | then_ (raw : String) (attrs : List AttrItem) (span : Option String) (cs : List ThenItem)
  | elem (t : Tag) (inner : List Ev)     -- any other element, e.g. `<term>…</term>`
  | empty (t : Tag)                      -- any empty element
  | text (s : String)
  | cdata
  | comment
  deriving DecidableEq, Repr, Inhabited

structure Stmt where
  raw : String                 -- qualified name, e.g. "policy-statement"
  attrs : List Attr            -- as iterated `with_checks(false)`: any order, duplicates kept
  span : Option String
  body : List BodyItem
  deriving DecidableEq, Repr, Inhabited

/-- children of `<policy-options>` -/
inductive PoItem where
  | stmt (s : Stmt)
  | comment
  deriving DecidableEq, Repr, Inhabited

/-- the content of `<data>`: comments, one `<configuration>` containing comments and one
`<policy-options>` -/
structure Config where
  confRaw : String
  confAttrs : List AttrItem
  confSpan : Option String
  poRaw : String
  poAttrs : List AttrItem
  poSpan : Option String
  items : List PoItem
  /-- numbers of comments before/after `<configuration>` and before/after `<policy-options>` -/
  c1 : Nat := 0
  c2 : Nat := 0
  c3 : Nat := 0
  c4 : Nat := 0
  deriving Repr, Inhabited

def stmtsOf (items : List PoItem) : List Stmt := items.filterMap fun | .stmt s => some s | .comment => none

def Config.stmts (cfg : Config) : List Stmt := stmtsOf cfg.items

/-! ### rendering -/

def xnmTag (lname raw : String) (attrs : List AttrItem) (span : Option String) : Tag :=
  { ns := .bound XNM, lname := lname, raw := raw, attrs := attrs, span := span }

def ThenItem.render : ThenItem → List Ev
  | .empty t => [.empty t]
  | .elem t inner => .start t :: inner ++ [.end t.raw]
  | .text s => [.text s]
  | .cdata => [.cdata]
  | .comment => [.comment]

def BodyItem.render : BodyItem → List Ev
  | .name raw attrs span inner => .start (xnmTag "name" raw attrs (some span)) :: inner ++ [.end raw]
  | .then_ raw attrs span cs => .start (xnmTag "then" raw attrs span) :: cs.flatMap ThenItem.render ++ [.end raw]
  | .elem t inner => .start t :: inner ++ [.end t.raw]
  | .empty t => [.empty t]
  | .text s => [.text s]
  | .cdata => [.cdata]
  | .comment => [.comment]

def Stmt.tag (s : Stmt) : Tag := xnmTag "policy-statement" s.raw (s.attrs.map .ok) s.span

def Stmt.render (s : Stmt) : List Ev :=
  .start s.tag :: s.body.flatMap BodyItem.render ++ [.end s.raw]

def PoItem.render : PoItem → List Ev
  | .stmt s => s.render
  | .comment => [.comment]

def comments (n : Nat) : List Ev := List.replicate n .comment

/-- the events after the `<data>` start tag, up to and including its end tag -/
def Config.render (cfg : Config) (dataRaw : String) : List Ev :=
  comments cfg.c1 ++
    .start (xnmTag "configuration" cfg.confRaw cfg.confAttrs cfg.confSpan) ::
      (comments cfg.c3 ++
        .start (xnmTag "policy-options" cfg.poRaw cfg.poAttrs cfg.poSpan) ::
          (cfg.items.flatMap PoItem.render ++ .end cfg.poRaw :: (comments cfg.c4 ++
      .end cfg.confRaw :: (comments cfg.c2 ++ [.end dataRaw]))))

/-! ### well-formedness (what makes the event list the image of an XML document) -/

def Attr.isActive (a : Attr) : Bool := a.ns == .bound JCMD && a.lname == "active"
def Attr.isComment (a : Attr) : Bool := a.ns == .bound JCMD && a.lname == "comment"

def ThenItem.WF : ThenItem → Prop
  | .elem t inner => Inert t.raw inner
  | _ => True

def BodyItem.WF (unescape : String → Option String) : BodyItem → Prop
  | .name raw _ span inner => Inert raw inner ∧ (unescape span).isSome      -- well-formed character data
  | .then_ raw _ _ cs => (∀ c ∈ cs, c.WF) ∧ Inert raw (cs.flatMap ThenItem.render)
  | .elem t inner => Inert t.raw inner ∧ t.is XNM "name" = false ∧ t.is XNM "then" = false
  | _ => True

def BodyItem.isName : BodyItem → Bool
  | .name .. => true
  | _ => false

structure Stmt.WF (unescape : String → Option String) (s : Stmt) : Prop where
  /-- attribute values of `jcmd:active` / `jcmd:comment` are well-formed (unescapable) -/
  attrs : ∀ a ∈ s.attrs, (a.isActive || a.isComment) = true → a.value.isSome
  body : ∀ b ∈ s.body, b.WF unescape
  /-- no `policy-statement` nested in a `policy-statement` -/
  inert : Inert s.raw (s.body.flatMap BodyItem.render)
  /-- a list entry carries its key -/
  keyed : s.body.any BodyItem.isName = true

def Config.WF (unescape : String → Option String) (cfg : Config) : Prop :=
  ∀ s ∈ cfg.stmts, s.WF unescape

/-! ### the specification -/

/-- inactive: some `jcmd:active` attribute has the value `false` -/
def Stmt.inactive (s : Stmt) : Bool :=
  s.attrs.any fun a => a.isActive && a.value == some "false"

/-- the annotation texts of a statement, in attribute order -/
def Stmt.annotations (s : Stmt) : List String :=
  s.attrs.filterMap fun a => if a.isComment then a.value.bind annotationRaw else none

/-- the annotation in force: the last one -/
def Stmt.annotation (s : Stmt) : Option String := s.annotations.getLast?

def ThenItem.isReject : ThenItem → Bool
  | .empty t => t.is XNM "reject"
  | _ => false

def ThenItem.isComment : ThenItem → Bool
  | .comment => true
  | _ => false

/-- `then` holds a reject action and nothing else (comments aside) -/
def isDefaultReject (cs : List ThenItem) : Bool :=
  cs.any ThenItem.isReject && cs.all fun c => c.isReject || c.isComment

/-- the raw texts of the `<name>` children, in document order -/
def bodyNames (bs : List BodyItem) : List String :=
  bs.filterMap fun | .name _ _ span _ => some span | _ => none

/-- the contents of the `<then>` children, in document order -/
def bodyThens (bs : List BodyItem) : List (List ThenItem) :=
  bs.filterMap fun | .then_ _ _ _ cs => some cs | _ => none

def Stmt.names (s : Stmt) : List String := bodyNames s.body
def Stmt.thens (s : Stmt) : List (List ThenItem) := bodyThens s.body

/-- anything that is not the name, the action or a comment -/
def BodyItem.isOther : BodyItem → Bool
  | .name .. => false
  | .then_ .. => false
  | .comment => false
  | _ => true

/-- the statement consists of its name and a default reject action -/
def Stmt.defaultReject (s : Stmt) : Bool :=
  !s.body.any BodyItem.isOther && s.names.length == 1 &&
    match s.thens with
    | [cs] => isDefaultReject cs
    | _ => false

/-- a child of `<then>` that is neither `<reject/>` nor a comment -/
def ThenItem.isDirty (c : ThenItem) : Bool := !(c.isReject || c.isComment)

/-- "no other content": the body holds nothing but at most one name, at most one `then` and
comments; `then` holds nothing but `<reject/>` and comments (hypothesis of the restricted theorem
for the unrepaired code) -/
def Stmt.plain (s : Stmt) : Bool :=
  !s.body.any BodyItem.isOther && decide (s.names.length ≤ 1) && decide (s.thens.length ≤ 1) &&
    s.thens.all fun cs => !cs.any ThenItem.isDirty

/-- the (name, expression) pair the agent has to manage for `s`, if any -/
def Stmt.selected (parseExpr unescape : String → Option String) (s : Stmt) : Option (String × FExpr) :=
  if s.inactive then none
  else match s.annotation with
    | none => none
    | some raw =>
      if s.defaultReject then
        (s.names.head?.bind unescape).map fun n => (n, toFExpr parseExpr raw)
      else none

def nodupNames {T} : List (String × T) → Bool
  | [] => true
  | x :: xs => !xs.any (·.1 == x.1) && nodupNames xs

/-- **C16 specification**: the managed statements of a running configuration, in document order;
two managed statements of the same name are an error. -/
def select (parseExpr unescape : String → Option String) (cfg : Config) : Except Err (List (String × FExpr)) :=
  let l := cfg.stmts.filterMap (Stmt.selected parseExpr unescape)
  if nodupNames l then .ok l else .error .other

end Xml

namespace Xml

/-! ### well-formedness is decidable (used by the non-vacuity examples) -/

instance (c : ThenItem) : Decidable c.WF := by
  cases c <;> unfold ThenItem.WF <;> infer_instance

instance (u : String → Option String) (b : BodyItem) : Decidable (b.WF u) := by
  cases b <;> unfold BodyItem.WF <;> infer_instance

instance (u : String → Option String) (s : Stmt) : Decidable (s.WF u) :=
  decidable_of_iff
    ((∀ a ∈ s.attrs, (a.isActive || a.isComment) = true → a.value.isSome) ∧ (∀ b ∈ s.body, b.WF u) ∧
      Inert s.raw (s.body.flatMap BodyItem.render) ∧ s.body.any BodyItem.isName = true)
    ⟨fun ⟨a, b, c, d⟩ => ⟨a, b, c, d⟩, fun h => ⟨h.attrs, h.body, h.inert, h.keyed⟩⟩

instance (u : String → Option String) (cfg : Config) : Decidable (cfg.WF u) := by
  unfold Config.WF; infer_instance

end Xml
