import Bgpfu.Model.FetchInstalled
import Bgpfu.Spec.ConfigGrammar
import Bgpfu.Spec.ReplyGrammar
/-!
`renderGetConfig` (DESIGN.md Appendix B): the reference Junos configuration as the `<get-config>`
reply document the agent's reader of installed policies is given, **as the event list the quick-xml
tokenizer produces for it** (`Model/Xml.lean`), including every `read_text` span. It is the Lean twin
of the harness renderer `render_get_config` (harness/src/plan.rs); the harness tokenises the text it
rendered and compares it with this event list for every generated configuration (`plan render`
rows), so the Rust renderer is not trusted.

    <rpc-reply xmlns=BASE message-id="1"><data><configuration xmlns=XNM>
      [<policy-options>                                         -- absent when there is no policy
        (<policy-statement><name>N</name>
           (<term><name>K</name>
              [<from>[<family>F</family>]
                 (<route-filter><address>A/len</address><choice-ident>prefix-length-range</choice-ident>
                    <choice-value>/LO - /HI (no blanks)</choice-value></route-filter>)*</from>]   -- iff family or filters
              [<then><accept/></then>]</term>)*
           [<then><reject/></then>]</policy-statement>)*
      </policy-options>]
    </configuration></data></rpc-reply>

A configuration is given at text level (`TCfg`: names and families are `String`s); `TCfg.toJ enc` is
the reference configuration (`Policy.JCfg`, byte strings) it denotes under a text encoding `enc`
(UTF-8). Text is escaped as the harness does (`&`, `<`, `>` only); addresses are written as
`std::net::Ipv4Addr` / `Ipv6Addr` `Display` does. Import-free apart from the model.
-/
namespace Xml
open Policy (Range Fam Str JCfg JPolicy JTerm)

/-! ### text-level configurations -/

structure TTerm where
  name : String
  family : Option String
  filters : List Range
  accept : Bool
  deriving DecidableEq, Repr

structure TPolicy where
  name : String
  /-- carried along, not rendered (the reader does not look at attributes) -/
  comment : Option Str := none
  terms : List TTerm
  reject : Bool
  deriving DecidableEq, Repr

abbrev TCfg := List TPolicy

def TTerm.toJ (enc : String → Str) (t : TTerm) : Str × JTerm :=
  (enc t.name, { family := t.family.map enc, filters := t.filters, accept := t.accept })

def TPolicy.toJ (enc : String → Str) (p : TPolicy) : Str × JPolicy :=
  (enc p.name, { comment := p.comment, terms := p.terms.map (TTerm.toJ enc), thenReject := p.reject })

/-- the reference configuration denoted by a text-level configuration -/
def TCfg.toJ (enc : String → Str) (c : TCfg) : JCfg := c.map (TPolicy.toJ enc)

/-! ### text -/

/-- `esc_text`: only the three characters that must be escaped -/
def escC (c : Char) : List Char :=
  if c = '&' then ['&', 'a', 'm', 'p', ';']
  else if c = '<' then ['&', 'l', 't', ';']
  else if c = '>' then ['&', 'g', 't', ';']
  else [c]

def escL (l : List Char) : List Char := l.flatMap escC
def escS (s : String) : String := String.ofList (escL s.toList)

/-- quick-xml `is_whitespace` (reader/mod.rs:925): what `trim_text(true)` strips from `Text` events -/
def isQws (c : Char) : Bool := c == ' ' || c == '\r' || c == '\n' || c == '\t'
def qtrimL (l : List Char) : List Char := ((l.dropWhile isQws).reverse.dropWhile isQws).reverse

def decDigit (n : Nat) : Char := Char.ofNat (48 + n % 10)

def decAux : (fuel : Nat) → Nat → List Char → List Char
  | 0, _, acc => acc
  | fuel + 1, n, acc => if n < 10 then decDigit n :: acc else decAux fuel (n / 10) (decDigit n :: acc)

/-- decimal `Display` of an unsigned integer -/
def decL (n : Nat) : List Char := decAux (n + 1) n []

def hexDigit (n : Nat) : Char := if n % 16 < 10 then Char.ofNat (48 + n % 16) else Char.ofNat (87 + n % 16)

def hexAux : (fuel : Nat) → Nat → List Char → List Char
  | 0, _, acc => acc
  | fuel + 1, n, acc => if n < 16 then hexDigit n :: acc else hexAux fuel (n / 16) (hexDigit n :: acc)

/-- `{:x}` -/
def hexL (n : Nat) : List Char := hexAux (n + 1) n []

/-- `Ipv4Addr` `Display`; an address that does not fit 32 bits shows in the first component -/
def showV4L (a : Nat) : List Char :=
  decL (a / 2 ^ 24) ++ '.' :: decL (a / 2 ^ 16 % 256) ++ '.' :: decL (a / 2 ^ 8 % 256) ++ '.' :: decL (a % 256)

def v6Segments (a : Nat) : List Nat :=
  [a / 2 ^ 112, a / 2 ^ 96 % 65536, a / 2 ^ 80 % 65536, a / 2 ^ 64 % 65536,
   a / 2 ^ 48 % 65536, a / 2 ^ 32 % 65536, a / 2 ^ 16 % 65536, a % 65536]

/-- the first longest run of zero segments: scan state (index, current start, current length, best
start, best length) -/
def zeroRun : List Nat → (i cs cl bs bl : Nat) → Nat × Nat
  | [], _, _, _, bs, bl => (bs, bl)
  | s :: rest, i, cs, cl, bs, bl =>
    if s = 0 then
      let cs' := if cl = 0 then i else cs
      if cl + 1 > bl then zeroRun rest (i + 1) cs' (cl + 1) cs' (cl + 1)
      else zeroRun rest (i + 1) cs' (cl + 1) bs bl
    else zeroRun rest (i + 1) 0 0 bs bl

def joinColon : List (List Char) → List Char
  | [] => []
  | [x] => x
  | x :: y :: rest => x ++ ':' :: joinColon (y :: rest)

def fmtSegs (l : List Nat) : List Char := joinColon (l.map hexL)

/-- `Ipv6Addr` `Display` (core::net::ip_addr): `::ffff:a.b.c.d` for IPv4-mapped addresses, otherwise
the first longest run of at least two zero segments is compressed -/
def showV6L (a : Nat) : List Char :=
  if a / 2 ^ 32 = 0xffff then "::ffff:".toList ++ showV4L (a % 2 ^ 32)
  else
    let segs := v6Segments a
    let z := zeroRun segs 0 0 0 0 0
    if z.2 > 1 then fmtSegs (segs.take z.1) ++ ':' :: ':' :: fmtSegs (segs.drop (z.1 + z.2))
    else fmtSegs segs

/-- `addr_text`: `<address>/<len>` -/
def prefixL (v6 : Bool) (addr len : Nat) : List Char :=
  (if v6 then showV6L addr else showV4L addr) ++ '/' :: decL len

/-- `/<n>` -/
def lenL (n : Nat) : List Char := '/' :: decL n

/-- the `choice-value` text: slash lo, hyphen, slash hi -/
def plrL (lo hi : Nat) : List Char := lenL lo ++ '-' :: lenL hi

def prefixS (v6 : Bool) (addr len : Nat) : String := String.ofList (prefixL v6 addr len)
def lenS (n : Nat) : String := String.ofList (lenL n)
def plrS (lo hi : Nat) : String := String.ofList (plrL lo hi)

def PLR : List Char := "prefix-length-range".toList

/-- `<name>inner</name>` -/
def elL (name : String) (inner : List Char) : List Char :=
  '<' :: name.toList ++ '>' :: inner ++ '<' :: '/' :: name.toList ++ ['>']

/-! ### events -/

/-- the `Text` event (if any) the tokenizer emits for character data `txt` -/
def textEv (txt : List Char) : List Ev :=
  if (qtrimL txt).isEmpty then [] else [.text (String.ofList (qtrimL txt))]

/-- start tag of an element in the XNM namespace without attributes whose content is the text `span` -/
def xtag (name : String) (span : List Char) : Tag := xnmTag name name [] (some (String.ofList span))

def emptyTag (name : String) : Tag := xnmTag name name [] none

/-- `<name>txt</name>` -/
def leafEvs (name : String) (txt : List Char) : List Ev :=
  .start (xtag name txt) :: (textEv txt ++ [.end name])

def filterInner (r : Range) : List Char :=
  elL "address" (prefixL r.v6 r.addr r.len) ++ elL "choice-ident" PLR ++ elL "choice-value" (plrL r.lo r.hi)

def filterBody (r : Range) : List Ev :=
  leafEvs "address" (prefixL r.v6 r.addr r.len) ++ (leafEvs "choice-ident" PLR ++ leafEvs "choice-value" (plrL r.lo r.hi))

def filterEvs (r : Range) : List Ev :=
  .start (xtag "route-filter" (filterInner r)) :: (filterBody r ++ [.end "route-filter"])

/-- `<from>` is written iff the term has a family or a route-filter -/
def TTerm.hasFrom (t : TTerm) : Bool := t.family.isSome || !t.filters.isEmpty

def familyText (t : TTerm) : List Char :=
  match t.family with
  | some f => elL "family" (escL f.toList)
  | none => []

def familyEvs (t : TTerm) : List Ev :=
  match t.family with
  | some f => leafEvs "family" (escL f.toList)
  | none => []

def fromInner (t : TTerm) : List Char :=
  familyText t ++ t.filters.flatMap fun r => elL "route-filter" (filterInner r)

def fromBody (t : TTerm) : List Ev := familyEvs t ++ t.filters.flatMap filterEvs

def fromEvs (t : TTerm) : List Ev :=
  if t.hasFrom then .start (xtag "from" (fromInner t)) :: (fromBody t ++ [.end "from"]) else []

def ACCEPT : List Char := "<accept/>".toList
def REJECT : List Char := "<reject/>".toList

/-- `<then><act/></then>` -/
def thenEvs (act : String) (inner : List Char) : List Ev :=
  [.start (xtag "then" inner), .empty (emptyTag act), .end "then"]

def termInner (t : TTerm) : List Char :=
  elL "name" (escL t.name.toList) ++ (if t.hasFrom then elL "from" (fromInner t) else [])
    ++ (if t.accept then elL "then" ACCEPT else [])

def termBody (t : TTerm) : List Ev :=
  leafEvs "name" (escL t.name.toList) ++ (fromEvs t ++ (if t.accept then thenEvs "accept" ACCEPT else []))

def termTag (t : TTerm) : Tag := xtag "term" (termInner t)

def termEvs (t : TTerm) : List Ev := .start (termTag t) :: (termBody t ++ [.end "term"])

def policyInner (p : TPolicy) : List Char :=
  elL "name" (escL p.name.toList) ++ (p.terms.flatMap fun t => elL "term" (termInner t))
    ++ (if p.reject then elL "then" REJECT else [])

def policyBody (p : TPolicy) : List Ev :=
  leafEvs "name" (escL p.name.toList) ++ (p.terms.flatMap termEvs ++ (if p.reject then thenEvs "reject" REJECT else []))

def policyTag (p : TPolicy) : Tag := xtag "policy-statement" (policyInner p)

def policyEvs (p : TPolicy) : List Ev := .start (policyTag p) :: (policyBody p ++ [.end "policy-statement"])

def poInner (c : TCfg) : List Char := c.flatMap fun p => elL "policy-statement" (policyInner p)

def confInner (c : TCfg) : List Char := if c.isEmpty then [] else elL "policy-options" (poInner c)

def CONF_OPEN : List Char := "<configuration xmlns=\"http://xml.juniper.net/xnm/1.1/xnm\">".toList
def CONF_CLOSE : List Char := "</configuration>".toList

def dataInner (c : TCfg) : List Char := CONF_OPEN ++ confInner c ++ CONF_CLOSE
def rpcInner (c : TCfg) : List Char := elL "data" (dataInner c)

def xmlnsAttr (uri : String) : AttrItem := .ok { key := "xmlns", ns := .unbound, lname := "xmlns", value := some uri }
def msgIdAttr : AttrItem := .ok { key := "message-id", ns := .unbound, lname := "message-id", value := some "1" }

def confTag (c : TCfg) : Tag :=
  xnmTag "configuration" "configuration" [xmlnsAttr XNM] (some (String.ofList (confInner c)))

/-- the events after the `<configuration>` start tag, up to and including its end tag;
`<policy-options>` is absent when there is no policy -/
def confBody (c : TCfg) : List Ev :=
  if c.isEmpty then [.end "configuration"]
  else .start (xtag "policy-options" (poInner c)) :: (c.flatMap policyEvs ++ [.end "policy-options", .end "configuration"])

/-- the events after the `<data>` start tag, up to and including its end tag -/
def renderData (c : TCfg) : List Ev := .start (confTag c) :: (confBody c ++ [.end "data"])

def rpcTag (c : TCfg) : Tag :=
  { ns := .bound BASE, lname := "rpc-reply", raw := "rpc-reply", attrs := [xmlnsAttr BASE, msgIdAttr],
    span := some (String.ofList (rpcInner c)) }

def dataTag (c : TCfg) : Tag :=
  { ns := .bound BASE, lname := "data", raw := "data", attrs := [], span := some (String.ofList (dataInner c)) }

/-- **the reply document** as the tokenizer delivers it -/
def renderGetConfig (c : TCfg) : List Ev :=
  .start (rpcTag c) :: .start (dataTag c) :: (renderData c ++ [.end "rpc-reply", .eof])

end Xml

namespace Xml
open Policy (Range Fam Str)

/-! ### hypotheses on the library oracles and on the text encoding
Both are stated relative to the configuration (the texts that occur in it), so that they can be
checked for a concrete oracle / encoding and configuration by evaluation. -/

/-- the strings the reader compares: term name, trimmed family -/
def TTerm.strings (t : TTerm) : List String :=
  t.name :: (match t.family with | some f => [trim f] | none => [])

def TPolicy.strings (p : TPolicy) : List String := p.name :: p.terms.flatMap TTerm.strings

/-- all strings the reader compares with each other on this configuration -/
def TCfg.strings (c : TCfg) : List String := "inet" :: "inet6" :: c.flatMap TPolicy.strings

def TCfg.ranges (c : TCfg) : List Range := c.flatMap fun p => p.terms.flatMap (·.filters)

def TCfg.families (c : TCfg) : List String := c.flatMap fun p => p.terms.filterMap (·.family)

instance Fam.decForall (P : Fam → Prop) [DecidablePred P] : Decidable (∀ f, P f) :=
  decidable_of_iff (P .v4 ∧ P .v6)
    ⟨fun h f => by cases f; exact h.1; exact h.2, fun h => ⟨h _, h _⟩⟩

/-- the library oracles behave on the texts of route-filter `r` as the abstract model
(`Policy.readRange`) assumes of generic-ip: `Prefix<A>::from_str` accepts exactly an address of its
own family with a length within the family's width, and masks the host bits;
`PrefixLength<A>::from_str` accepts `/n` for `n` up to the family's width. -/
structure RangeOK (o : IOracle) (r : Range) : Prop where
  pfx : ∀ f : Fam, o.parsePrefix f (trim (prefixS r.v6 r.addr r.len))
      = if r.v6 = f.isV6 ∧ r.len ≤ f.bits ∧ r.addr < 2 ^ f.bits
        then some (r.addr - r.addr % 2 ^ (f.bits - r.len), r.len) else none
  lo : ∀ f : Fam, o.parseLen f (lenS r.lo) = if r.lo ≤ f.bits then some r.lo else none
  hi : ∀ f : Fam, o.parseLen f (lenS r.hi) = if r.hi ≤ f.bits then some r.hi else none

instance (o : IOracle) (r : Range) : Decidable (RangeOK o r) :=
  decidable_of_iff
    ((∀ f : Fam, o.parsePrefix f (trim (prefixS r.v6 r.addr r.len))
        = if r.v6 = f.isV6 ∧ r.len ≤ f.bits ∧ r.addr < 2 ^ f.bits
          then some (r.addr - r.addr % 2 ^ (f.bits - r.len), r.len) else none) ∧
     (∀ f : Fam, o.parseLen f (lenS r.lo) = if r.lo ≤ f.bits then some r.lo else none) ∧
     (∀ f : Fam, o.parseLen f (lenS r.hi) = if r.hi ≤ f.bits then some r.hi else none))
    ⟨fun ⟨a, b, c⟩ => ⟨a, b, c⟩, fun h => ⟨h.pfx, h.lo, h.hi⟩⟩

/-- `unescape` undoes the escaping (of every text); the address oracles are right on the
route-filters of the configuration -/
structure IOracle.Consistent (o : IOracle) (c : TCfg) : Prop where
  unescape : ∀ s, o.unescape (escS s) = some s
  ranges : ∀ r ∈ c.ranges, RangeOK o r

/-- `enc` is a faithful encoding of the configuration's texts as byte strings (UTF-8): injective on
the strings the reader compares, the two family names are the byte strings the abstract model calls
`inet` / `inet6`, and `str::trim` of a family value is `Policy.trimB` -/
structure EncOK (enc : String → Str) (c : TCfg) : Prop where
  inj : ∀ a ∈ c.strings, ∀ b ∈ c.strings, enc a = enc b → a = b
  inet : enc "inet" = Policy.inet
  inet6 : enc "inet6" = Policy.inet6
  trim : ∀ f ∈ c.families, enc (trim f) = Policy.trimB (enc f)

instance (enc : String → Str) (c : TCfg) : Decidable (EncOK enc c) :=
  decidable_of_iff
    ((∀ a ∈ c.strings, ∀ b ∈ c.strings, enc a = enc b → a = b) ∧ enc "inet" = Policy.inet ∧
      enc "inet6" = Policy.inet6 ∧ ∀ f ∈ c.families, enc (trim f) = Policy.trimB (enc f))
    ⟨fun ⟨a, b, c, d⟩ => ⟨a, b, c, d⟩, fun h => ⟨h.inj, h.inet, h.inet6, h.trim⟩⟩

/-- names of a result as byte strings -/
def encNames (enc : String → Str) (l : List (String × Policy.Installed)) : List (Str × Policy.Installed) :=
  l.map fun x => (enc x.1, x.2)

end Xml
