import Bgpfu.Model.Hello
import Bgpfu.Spec.ReplyGrammar
/-! The server `<hello>` grammar as abstract syntax, its rendering as events, and the
child-level semantics of the hello reader (specification side of C12). -/
namespace Xml

structure CapLeaf where
  span : String
  inner : List Ev

inductive HChild where
  | caps (raw : String) (cs : List CapLeaf)
  | sid (span : String) (inner : List Ev)
  | comment

def CapLeaf.render (c : CapLeaf) : List Ev := leaf "capability" c.span c.inner

def HChild.render : HChild → List Ev
  | .caps raw cs =>
    .start { ns := .bound BASE, lname := "capabilities", raw := raw, attrs := [], span := none } ::
      cs.flatMap CapLeaf.render ++ [.end raw]
  | .sid s inner => leaf "session-id" s inner
  | .comment => [.comment]

def HChild.WF : HChild → Prop
  | .caps _ cs => ∀ c ∈ cs, Inert "capability" c.inner
  | .sid _ inner => Inert "session-id" inner
  | .comment => True

/-- `<hello …>` children `</hello>` EOF -/
def helloDoc (raw : String) (attrs : List AttrItem) (cs : List HChild) : List Ev :=
  .start { ns := .bound BASE, lname := "hello", raw := raw, attrs := attrs, span := none } ::
    cs.flatMap HChild.render ++ [.end raw, .eof]

/-- capability list semantics: parse each leaf in order, fail on the first invalid URI -/
def capsAbs (o : UriOracle) (acc : List Capability) : List CapLeaf → Except Err (List Capability)
  | [] => .ok acc
  | c :: cs => match parseCapability o c.span with
    | .ok v => capsAbs o (acc ++ [v]) cs
    | .error e => .error e

def helloAbs (o : UriOracle) (caps : Option (List Capability)) (sid : Option Nat) : List HChild → Except Err Hello
  | [] => match caps, sid with
    | some c, some n => .ok { caps := c, sid := n }
    | _, _ => .error .missing
  | .caps _ cs :: rest =>
    if caps.isNone then (match capsAbs o [] cs with
      | .ok c => helloAbs o (some c) sid rest
      | .error e => .error e)
    else .error .unexpected
  | .sid s _ :: rest =>
    if sid.isNone then (match parseSessionId s with
      | some n => helloAbs o caps (some n) rest
      | none => .error .parse)
    else .error .unexpected
  | .comment :: rest => helloAbs o caps sid rest

def establishAbs (advertise11 : Bool) (o : UriOracle) (cs : List HChild) : Except Err Context :=
  match helloAbs o none none cs with
  | .error e => .error e
  | .ok h => match highestCommon (clientAdvertised advertise11) h.caps with
    | none => .error .other
    | some v => .ok { sid := h.sid, version := v, serverCaps := h.caps }

end Xml
