import Bgpfu.Model.Hello
import Bgpfu.Spec.ReplyGrammar
/-! The server `<hello>` grammar as abstract syntax, its rendering as events, and the
child-level semantics of the hello reader (specification side of C12). -/
namespace Xml

/-- children of `<capabilities>`: capability leaves and comments -/
inductive CapLeaf where
  | cap (span : String) (inner : List Ev)
  | comment

inductive HChild where
  | caps (raw : String) (cs : List CapLeaf)
  | sid (span : String) (inner : List Ev)
  | comment

def CapLeaf.render : CapLeaf → List Ev
  | .cap span inner => leaf "capability" span inner
  | .comment => [.comment]

def CapLeaf.WF : CapLeaf → Prop
  | .cap _ inner => Inert "capability" inner
  | .comment => True

def HChild.render : HChild → List Ev
  | .caps raw cs =>
    .start { ns := .bound BASE, lname := "capabilities", raw := raw, attrs := [], span := none } ::
      cs.flatMap CapLeaf.render ++ [.end raw]
  | .sid s inner => leaf "session-id" s inner
  | .comment => [.comment]

def HChild.WF : HChild → Prop
  | .caps _ cs => ∀ c ∈ cs, c.WF
  | .sid _ inner => Inert "session-id" inner
  | .comment => True

/-- `<hello …>` children `</hello>` EOF -/
def helloDoc (raw : String) (attrs : List AttrItem) (cs : List HChild) : List Ev :=
  .start { ns := .bound BASE, lname := "hello", raw := raw, attrs := attrs, span := none } ::
    cs.flatMap HChild.render ++ [.end raw, .eof]

/-- the same message with `pre` comments in front of `<hello>` and `post` comments between
`</hello>` and EOF -/
def helloDocMisc (pre post : Nat) (raw : String) (attrs : List AttrItem) (cs : List HChild) : List Ev :=
  List.replicate pre .comment ++
    (.start { ns := .bound BASE, lname := "hello", raw := raw, attrs := attrs, span := none } ::
      cs.flatMap HChild.render ++ .end raw :: List.replicate post .comment ++ [.eof])

theorem helloDocMisc_zero (raw : String) (attrs : List AttrItem) (cs : List HChild) :
    helloDocMisc 0 0 raw attrs cs = helloDoc raw attrs cs := by
  simp [helloDocMisc, helloDoc]

/-- capability list semantics: parse each leaf in order, fail on the first invalid URI -/
def capsAbs (c : RCfg) (o : UriOracle) (acc : List Capability) : List CapLeaf → Except Err (List Capability)
  | [] => .ok acc
  | .cap span _ :: cs => match parseCapability o (c.tok span) with
    | .ok v => capsAbs c o (acc ++ [v]) cs
    | .error e => .error e
  | .comment :: cs => if c.capsComment then capsAbs c o acc cs else .error .unexpected

def helloAbs (c : RCfg) (o : UriOracle) (caps : Option (List Capability)) (sid : Option Nat) : List HChild → Except Err Hello
  | [] => match caps, sid with
    | some c, some n => .ok { caps := c, sid := n }
    | _, _ => .error .missing
  | .caps _ cs :: rest =>
    if caps.isNone then (match capsAbs c o [] cs with
      | .ok v => helloAbs c o (some v) sid rest
      | .error e => .error e)
    else .error .unexpected
  | .sid s _ :: rest =>
    if sid.isNone then (match parseSessionId (c.tok s) with
      | some n => helloAbs c o caps (some n) rest
      | none => .error .parse)
    else .error .unexpected
  | .comment :: rest => helloAbs c o caps sid rest

def establishAbs (c : RCfg) (advertise11 : Bool) (o : UriOracle) (cs : List HChild) : Except Err Context :=
  match helloAbs c o none none cs with
  | .error e => .error e
  | .ok h => match highestCommon (clientAdvertised advertise11) h.caps with
    | none => .error .other
    | some v => .ok { sid := h.sid, version := v, serverCaps := h.caps }

end Xml
