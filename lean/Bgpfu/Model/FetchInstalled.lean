import Bgpfu.Model.Xml
import Bgpfu.Model.Readers
import Bgpfu.Model.Fetch
import Bgpfu.Model.Policy
import Bgpfu.Model.Junos
/-
Event-level model of the agent's reader of INSTALLED policies (C01 read-back),
/repo/junos-agent/src/policies/fetch.rs:
  fetch.rs:243-327   impl ReadXml for Maybe<Installed>          → `instThenLoop`, `instLoop`, `InstSt.finish`,
                                                                   `readInstalledStmt`
  fetch.rs:344-432   Term::borrowed_read_xml                    → `acceptLoop`, `termLoop`, `TermSt.finish`
  fetch.rs:439-481   TermFrom::try_into_ranges                  → `withLengthRange`, `toRange`, `toRanges`,
                                                                   `tryIntoRanges`
  fetch.rs:483-533   TermFrom::borrowed_read_xml                → `fromLoop`, `FromSt.finish`
  fetch.rs:536-541   trimmed                                    → `Xml.trim`
  fetch.rs:548-612   RouteFilter::borrowed_read_xml             → `choiceValueLoop` (the inner loop that has
                                                                   no `End` arm), `routeFilterLoop`
  fetch.rs:60-141    impl<T> ReadXml for Policies<T>            → reused from Model/Fetch.lean
                                                                   (`policiesLoop` …, generic in the reader)
  policies/verif.rs:21-34, 63-72  read_data / read_installed    → `readData`, `readInstalledDoc`
One Lean function per Rust loop, one `match` arm per Rust arm, same order and guards; `fuel` is
decremented once per loop iteration (never exhausted: `Lemmas/FetchInstalled.lean`).

Library results are inputs (`IOracle`):
  unescape      `quick_xml::escape::unescape` (`none` = error)
  parsePrefix   `<ip::concrete::Prefix<A> as FromStr>::from_str` → (address bits as a number, length);
                `none` = error
  parseLen      `<ip::concrete::PrefixLength<A> as FromStr>::from_str` (`"/24"` → 24); `none` = error
`PrefixRange::with_length_range` is modelled from its source (generic-ip 0.1.1
concrete/prefix/range.rs:101-105 with `Range::new` :49-58): `lower = max(len, lo)`, `None` unless
`lower ≤ hi` — the same reading as `Policy.readRange`. `collect::<HashSet>` is `Policy.dedup`.
Import-free apart from Model.{Xml,Readers,Fetch,Policy,Junos}.
-/
namespace Xml
open Policy (Fam Range Installed dedup)

structure IOracle where
  unescape : String → Option String
  parsePrefix : Fam → String → Option (Nat × Nat)
  parseLen : Fam → String → Option Nat

/-! ### RouteFilter::borrowed_read_xml (fetch.rs:548-612) -/

/-- fetch.rs:574-589 the inner loop after `<choice-ident>`: no `End` arm -/
def choiceValueLoop : (fuel : Nat) → List Ev → Except Err (String × List Ev)
  | 0, _ => .error .fuel
  | _ + 1, [] => .error .xml
  | fuel + 1, ev :: rest =>
    match ev with
    | .error => .error .xml
    | .start t =>
      if t.is XNM "choice-value" then
        (match readText t rest with
         | .ok (s, r) => .ok (trim s, r)
         | .error e => .error e)
      else .error .unexpected
    | .comment => choiceValueLoop fuel rest
    | _ => .error .unexpected

/-- `RouteFilter { address, prefix_length_range }` while being read -/
structure RfSt where
  address : Option String := none
  plr : Option String := none
  deriving DecidableEq, Repr, Inhabited

/-- fetch.rs:556-598 -/
def routeFilterLoop : (fuel : Nat) → (endRaw : String) → RfSt → List Ev → Except Err (RfSt × List Ev)
  | 0, _, _, _ => .error .fuel
  | _ + 1, _, _, [] => .error .xml
  | fuel + 1, endRaw, st, ev :: rest =>
    match ev with
    | .error => .error .xml
    | .start t =>
      if t.is XNM "address" && st.address.isNone then
        (match readText t rest with
         | .ok (s, r) => routeFilterLoop fuel endRaw { st with address := some (trim s) } r
         | .error e => .error e)
      else if t.is XNM "choice-ident" && st.plr.isNone then
        (match readText t rest with
         | .ok (s, r) =>
           if trim s != "prefix-length-range" then .error .other
           else
             (match choiceValueLoop fuel r with
              | .ok (v, r') => routeFilterLoop fuel endRaw { st with plr := some v } r'
              | .error e => .error e)
         | .error e => .error e)
      else .error .unexpected
    | .comment => routeFilterLoop fuel endRaw st rest
    | .end raw => if raw == endRaw then .ok (st, rest) else .error .unexpected
    | _ => .error .unexpected

/-- fetch.rs:599-610 -/
def RfSt.finish (st : RfSt) : Except Err (String × String) :=
  match st.address with
  | none => .error .missing
  | some a =>
    match st.plr with
    | none => .error .missing
    | some p => .ok (a, p)

def readRouteFilter (fuel : Nat) (t : Tag) (rest : List Ev) : Except Err ((String × String) × List Ev) :=
  match routeFilterLoop fuel t.raw {} rest with
  | .error e => .error e
  | .ok (st, r) =>
    match st.finish with
    | .error e => .error e
    | .ok v => .ok (v, r)

/-! ### TermFrom::borrowed_read_xml (fetch.rs:483-533) -/

/-- `TermFrom { family, route_filters }` while being read -/
structure FromSt where
  family : Option String := none
  filters : List (String × String) := []
  deriving DecidableEq, Repr, Inhabited

def fromLoop : (fuel : Nat) → (endRaw : String) → FromSt → List Ev → Except Err (FromSt × List Ev)
  | 0, _, _, _ => .error .fuel
  | _ + 1, _, _, [] => .error .xml
  | fuel + 1, endRaw, st, ev :: rest =>
    match ev with
    | .error => .error .xml
    | .start t =>
      if t.is XNM "family" && st.family.isNone then
        (match readText t rest with
         | .ok (s, r) => fromLoop fuel endRaw { st with family := some (trim s) } r
         | .error e => .error e)
      else if t.is XNM "route-filter" then
        (match readRouteFilter fuel t rest with
         | .ok (rf, r) => fromLoop fuel endRaw { st with filters := st.filters ++ [rf] } r
         | .error e => .error e)
      else .error .unexpected
    | .comment => fromLoop fuel endRaw st rest
    | .end raw => if raw == endRaw then .ok (st, rest) else .error .unexpected
    | _ => .error .unexpected

/-- `TermFrom` -/
structure TermFrom where
  family : String
  filters : List (String × String)
  deriving DecidableEq, Repr, Inhabited

/-- fetch.rs:525-531 -/
def FromSt.finish (st : FromSt) : Except Err TermFrom :=
  match st.family with
  | none => .error .missing
  | some f => .ok { family := f, filters := st.filters }

def readTermFrom (fuel : Nat) (t : Tag) (rest : List Ev) : Except Err (TermFrom × List Ev) :=
  match fromLoop fuel t.raw {} rest with
  | .error e => .error e
  | .ok (st, r) =>
    match st.finish with
    | .error e => .error e
    | .ok v => .ok (v, r)

/-! ### Term::borrowed_read_xml (fetch.rs:344-432) -/

/-- fetch.rs:375-389 the loop over the children of a term's `<then>` -/
def acceptLoop : (fuel : Nat) → (endRaw : String) → (accept : Bool) → List Ev → Except Err (Bool × List Ev)
  | 0, _, _, _ => .error .fuel
  | _ + 1, _, _, [] => .error .xml
  | fuel + 1, endRaw, accept, ev :: rest =>
    match ev with
    | .error => .error .xml
    | .empty t => if t.is XNM "accept" && !accept then acceptLoop fuel endRaw true rest else .error .unexpected
    | .comment => acceptLoop fuel endRaw accept rest
    | .end raw => if raw == endRaw then .ok (accept, rest) else .error .unexpected
    | _ => .error .unexpected

structure TermSt where
  name : Option String := none
  frm : Option TermFrom := none
  thn : Bool := false
  deriving DecidableEq, Repr, Inhabited

def termLoop : (fuel : Nat) → (endRaw : String) → TermSt → List Ev → Except Err (TermSt × List Ev)
  | 0, _, _, _ => .error .fuel
  | _ + 1, _, _, [] => .error .xml
  | fuel + 1, endRaw, st, ev :: rest =>
    match ev with
    | .error => .error .xml
    | .start t =>
      if t.is XNM "name" && st.name.isNone then
        -- `reader.read_text(..)`: raw span, neither unescaped nor trimmed
        (match readText t rest with
         | .ok (s, r) => termLoop fuel endRaw { st with name := some s } r
         | .error e => .error e)
      else if t.is XNM "from" && st.frm.isNone then
        (match readTermFrom fuel t rest with
         | .ok (f, r) => termLoop fuel endRaw { st with frm := some f } r
         | .error e => .error e)
      else if t.is XNM "then" && !st.thn then
        (match acceptLoop fuel t.raw false rest with
         | .ok (accept, r) =>
           if accept then termLoop fuel endRaw { st with thn := true } r
           else .error .missing                       -- MissingElement { then, accept }
         | .error e => .error e)
      else .error .unexpected
    | .comment => termLoop fuel endRaw st rest
    | .end raw => if raw == endRaw then .ok (st, rest) else .error .unexpected
    | _ => .error .unexpected

/-- fetch.rs:410-431 -/
def TermSt.finish (st : TermSt) : Except Err TermFrom :=
  if st.thn then
    match st.name with
    | none => .error .missing
    | some n =>
      match st.frm with
      | none => .error .missing
      | some f => if n != f.family then .error .other else .ok f
  else .error .missing

/-- `Term::borrowed_read_xml(reader, &tag)`; only `term.from` is used by the caller -/
def readTerm (fuel : Nat) (t : Tag) (rest : List Ev) : Except Err (TermFrom × List Ev) :=
  match termLoop fuel t.raw {} rest with
  | .error e => .error e
  | .ok (st, r) =>
    match st.finish with
    | .error e => .error e
    | .ok v => .ok (v, r)

/-! ### TermFrom::try_into_ranges (fetch.rs:439-481) -/

/-- `str::split_once(c)` -/
def splitOnceL (c : Char) : List Char → Option (List Char × List Char)
  | [] => none
  | x :: xs =>
    if x == c then some ([], xs)
    else match splitOnceL c xs with
      | some (a, b) => some (x :: a, b)
      | none => none

def splitOnceS (c : Char) (s : String) : Option (String × String) :=
  match splitOnceL c s.toList with
  | some (a, b) => some (String.ofList a, String.ofList b)
  | none => none

/-- `PrefixRange::from(prefix).with_length_range(lo..=hi)` for the prefix `addr/len` of family `f` -/
def withLengthRange (f : Fam) (addr len lo hi : Nat) : Option Range :=
  if max len lo ≤ hi then some { v6 := f.isV6, addr := addr, len := len, lo := max len lo, hi := hi } else none

/-- the closure of fetch.rs:455-476 on one route-filter; every failure becomes `ReadError::Other` -/
def toRange (o : IOracle) (f : Fam) (rf : String × String) : Except Err Range :=
  match o.parsePrefix f rf.1 with
  | none => .error .other
  | some (addr, len) =>
    match splitOnceS '-' rf.2 with
    | none => .error .other
    | some (l, u) =>
      match o.parseLen f l with
      | none => .error .other
      | some lo =>
        match o.parseLen f u with
        | none => .error .other
        | some hi =>
          match withLengthRange f addr len lo hi with
          | none => .error .other
          | some r => .ok r

/-- `.iter().map(..).collect::<Result<_, _>>()`: the first failure wins -/
def toRanges (o : IOracle) (f : Fam) : List (String × String) → Except Err (List Range)
  | [] => .ok []
  | rf :: rest =>
    match toRange o f rf with
    | .error e => .error e
    | .ok r =>
      match toRanges o f rest with
      | .error e => .error e
      | .ok rs => .ok (r :: rs)

/-- fetch.rs:443-452 the `(A::as_afi(), family)` check -/
def afiMatches (f : Fam) (family : String) : Bool :=
  match f with
  | .v4 => family == "inet"
  | .v6 => family == "inet6"

/-- `TermFrom::try_into_ranges::<A>`; the result is a `HashSet`: first occurrences in order -/
def tryIntoRanges (o : IOracle) (f : Fam) (frm : TermFrom) : Except Err (List Range) :=
  if !afiMatches f frm.family then .error .other
  else match toRanges o f frm.filters with
    | .error e => .error e
    | .ok rs => .ok (dedup rs)

/-! ### Maybe<Installed>::read_xml (fetch.rs:243-327) -/

/-- fetch.rs:282-297 the loop over the children of the statement's `<then>` -/
def instThenLoop : (fuel : Nat) → (endRaw : String) → (reject : Bool) → List Ev → Except Err (Bool × List Ev)
  | 0, _, _, _ => .error .fuel
  | _ + 1, _, _, [] => .error .xml
  | fuel + 1, endRaw, reject, ev :: rest =>
    match ev with
    | .error => .error .xml
    | .empty t => if t.is XNM "reject" then instThenLoop fuel endRaw true rest else .error .unexpected
    | .comment => instThenLoop fuel endRaw reject rest
    | .end raw => if raw == endRaw then .ok (reject, rest) else .error .unexpected
    | _ => .error .unexpected

structure InstSt where
  name : Option String := none
  v4 : Option (List Range) := none
  v6 : Option (List Range) := none
  reject : Bool := false
  deriving DecidableEq, Repr

/-- fetch.rs:262-275 the family dispatch after a term has been read -/
def InstSt.addTerm (o : IOracle) (st : InstSt) (frm : TermFrom) : Except Err InstSt :=
  if frm.family == "inet" && st.v4.isNone then
    (match tryIntoRanges o .v4 frm with
     | .ok rs => .ok { st with v4 := some rs }
     | .error e => .error e)
  else if frm.family == "inet6" && st.v6.isNone then
    (match tryIntoRanges o .v6 frm with
     | .ok rs => .ok { st with v6 := some rs }
     | .error e => .error e)
  else .error .other

/-- fetch.rs:249-306 the loop over the children of a `<policy-statement>` -/
def instLoop (o : IOracle) : (fuel : Nat) → (endRaw : String) → InstSt → List Ev → Except Err (InstSt × List Ev)
  | 0, _, _, _ => .error .fuel
  | _ + 1, _, _, [] => .error .xml
  | fuel + 1, endRaw, st, ev :: rest =>
    match ev with
    | .error => .error .xml
    | .start t =>
      if t.is XNM "name" && st.name.isNone then
        (match readName o.unescape t rest with
         | .ok (n, r) => instLoop o fuel endRaw { st with name := some n } r
         | .error e => .error e)
      else if t.is XNM "term" then
        (match readTerm fuel t rest with
         | .ok (frm, r) =>
           (match st.addTerm o frm with
            | .ok st' => instLoop o fuel endRaw st' r
            | .error e => .error e)
         | .error e => .error e)
      else if t.is XNM "then" && !st.reject then
        (match instThenLoop fuel t.raw st.reject rest with
         | .ok (rj, r) => instLoop o fuel endRaw { st with reject := rj } r
         | .error e => .error e)
      else .error .unexpected
    | .comment => instLoop o fuel endRaw st rest
    | .end raw => if raw == endRaw then .ok (st, rest) else .error .unexpected
    | _ => .error .unexpected

/-- fetch.rs:307-325 -/
def InstSt.finish (st : InstSt) : Except Err (Option (String × Installed)) :=
  if st.reject then
    match st.name with
    | some n => .ok (some (n, ⟨st.v4.getD [], st.v6.getD []⟩))
    | none => .error .missing
  else .ok none

/-- `Maybe<Installed>::read_xml`, called right after `Start(t)` -/
def readInstalledStmt (o : IOracle) : StmtReader Installed := fun fuel t rest =>
  match instLoop o fuel t.raw {} rest with
  | .error e => .error e
  | .ok (st, r) =>
    match st.finish with
    | .error e => .error e
    | .ok v => .ok (v, r)

/-- `Policies<Installed>::read_xml(reader, start)` with the reader standing right after `<data>`
(`dataRaw` = qualified name of the data element); result in document order -/
def readInstalledEv (o : IOracle) (dataRaw : String) (evs : List Ev) : Except Err (List (String × Installed)) :=
  policiesLoop (readInstalledStmt o) (evs.length + 1) dataRaw none evs

/-- `agent::verif::read_installed(reply_xml)` on the events of the whole reply document -/
def readInstalledDoc (o : IOracle) (evs : List Ev) : Except Err (List (String × Installed)) :=
  readData (fun t rest => readInstalledEv o t.raw rest) evs

end Xml
