/-!
# C20 — model of what the library and the agent write to the log

Import-free. The *data* (`LogTableGen.table`) is generated from the Rust sources by `tools/logtable.py`
on every run of `./check C20`; this file defines what a table means.

One `Entry` per logging site of netconf/src and junos-agent/src:
* `instrument` — a `#[tracing::instrument(..)]` function: the span records every parameter that is not
  skipped (`skip(..)`, `skip_all`) with its `Debug`, plus `fields(..)` and `ret`;
* `event` — a `tracing::{trace,debug,info,warn,error}!` call: named fields (`?x`, `%x`, `k = v`) and the
  arguments of the format string;
* `errtext` — an error- or panic-text constructor (`format!`, `anyhow!`, `bail!`, `#[error("..")]` …): the agent
  logs whole error chains (`tracing::error!("{err:#}")`, bin/bgpfu-junos-agent.rs:4, task.rs:171), so the
  arguments of every error text of the two crates are log content too.

Every recorded field carries the *formatter class* the translator derived for it:
* `redacting`     — the value is a secret, its `Debug` is hand-written and emits a constant
                    (`impl Debug for Password`, netconf/src/transport/ssh.rs; checked not to mention `self`);
* `opaque`        — either no secret flows into the field, or it is a dependency type holding the TLS key whose
                    `Debug` elides it (rustls-pki-types `Private*KeyDer`, rustls-pemfile `Item`, rustls
                    `ClientConfig`/`ClientConnection`; evidence in `LogTableGen.evidence`);
* `derivesSecret` — a secret flows in and the formatter prints the content (String, bytes, a derived `Debug`);
* `unknown`       — the translator could not classify the field: treated like `derivesSecret` (fail closed).
-/
namespace LogTable

inductive Formatter | redacting | opaque | derivesSecret | unknown
  deriving DecidableEq, Repr

/-- which secret reaches the field (`any`: not determined — both) -/
inductive Src | password | clientKey | any
  deriving DecidableEq, Repr

inductive Kind | instrument | event | errtext
  deriving DecidableEq, Repr

inductive Level | error | warn | info | debug | trace
  deriving DecidableEq, Repr

/-- verbosity rank: `error` is emitted at every level, `trace` only at the most verbose -/
def Level.rank : Level → Nat
  | .error => 0 | .warn => 1 | .info => 2 | .debug => 3 | .trace => 4

structure Field where
  name : String
  /-- declared Rust type, as text (`_` = not syntactically evident) -/
  ty : String
  fmt : Formatter
  src : Src
  /-- part of the formatted message (as opposed to a named field of the event/span) -/
  inMessage : Bool
  /-- the translator's justification -/
  why : String
  deriving Repr

structure Entry where
  file : String
  line : Nat
  lineEnd : Nat
  func : String
  kind : Kind
  level : Level
  mac : String
  fields : List Field
  deriving Repr

abbrev Table := List Entry

/-- the two secrets of the property: the SSH password and the bytes of the TLS client private key
(any representation: PEM text or DER) -/
structure Secrets where
  password : List Char
  clientKey : List Char
  deriving DecidableEq, Repr

def pick (s : Secrets) : Src → List Char
  | .password => s.password
  | .clientKey => s.clientKey
  | .any => s.password ++ s.clientKey

/-- the constant a redacting `Debug` emits (stands for `Password("****")`) -/
def redactedText : List Char := ['*', '*', '*', '*']
/-- the constant an eliding `Debug` emits (stands for `[secret key elided]` / a value without secret) -/
def elidedText : List Char := ['[', 'e', 'l', 'i', 'd', 'e', 'd', ']']

/-- text a formatter produces for a value that carries `secret` -/
def render : Formatter → List Char → List Char
  | .redacting, _ => redactedText
  | .opaque, _ => elidedText
  | .derivesSecret, secret => secret
  | .unknown, secret => secret

def Formatter.safe : Formatter → Bool
  | .redacting => true
  | .opaque => true
  | .derivesSecret => false
  | .unknown => false

/-- one emitted record: where, at which level, and the rendered value of each recorded field -/
structure Line where
  file : String
  line : Nat
  level : Level
  values : List (String × List Char)
  deriving DecidableEq, Repr

def renderField (s : Secrets) (f : Field) : String × List Char :=
  (f.name, render f.fmt (pick s f.src))

def renderEntry (s : Secrets) (e : Entry) : Line :=
  { file := e.file, line := e.line, level := e.level, values := e.fields.map (renderField s) }

/-- everything the sites of table `t` can write when the secrets are `s` -/
def logged (t : Table) (s : Secrets) : List Line := t.map (renderEntry s)

/-- the sites enabled at verbosity `lvl` -/
def atLevel (lvl : Level) (t : Table) : Table := t.filter (fun e => e.level.rank ≤ lvl.rank)

def Entry.safe (e : Entry) : Bool := e.fields.all (fun f => f.fmt.safe)

/-- the side condition decided on the generated table -/
def allSafe (t : Table) : Bool := t.all Entry.safe

/-- the fields that break `allSafe` (for reporting) -/
def unsafeFields (t : Table) : List (Entry × Field) :=
  t.flatMap (fun e => (e.fields.filter (fun f => !f.fmt.safe)).map (fun f => (e, f)))

end LogTable
