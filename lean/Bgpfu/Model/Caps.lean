/-
Model of netconf/src/capabilities.rs: `Capability`, `impl FromStr for Capability`
(capabilities.rs:123-183), `Capabilities::contains` (HashSet membership), `Requirements::check`
(capabilities.rs:292-306).  Import-free.

Text is `List Char` (kernel-reducible); literals are written `"…".toList`.

What is *not* modelled and supplied as an annotated input by the harness (taken from the real
`iri_string::types::UriStr` parse): whether the capability text is a valid URI at all, and its
decomposition into (scheme, authority, path, query, fragment).  What *is* modelled: the table
of exact component tuples, the `?scheme=a,b&…` query splitting of the `:url:1.0` capability and
the fall-through to `Unknown`.
-/
namespace Caps

abbrev Str := List Char

/-- capabilities.rs:106-121 (`Base` flattened into two constructors; feature "junos" is on) -/
inductive Capability where
  | base10 | base11
  | writableRunning | candidate
  | confirmedCommit10 | confirmedCommit11
  | rollbackOnError
  | validate10 | validate11
  | startup
  | url (schemes : List Str)
  | xpath
  | unknown (uri : Str)
  | junos
  deriving DecidableEq, Repr

/-- the components `UriStr::{scheme_str, authority_str, path_str, query_str, fragment}` return -/
structure UriParts where
  scheme : Str
  authority : Option Str
  path : Str
  query : Option Str
  fragment : Option Str
  deriving DecidableEq, Repr

/-- `str::split(c)`: always at least one piece (`"".split(',')` yields `[""]`) -/
def splitOn (c : Char) : Str → List Str
  | [] => [[]]
  | x :: xs =>
    if x = c then [] :: splitOn c xs
    else match splitOn c xs with
      | [] => [[x]]            -- unreachable: `splitOn` never returns `[]`
      | p :: ps => (x :: p) :: ps

/-- `str::split_once(c)` -/
def splitOnce (c : Char) : Str → Option (Str × Str)
  | [] => none
  | x :: xs =>
    if x = c then some ([], xs)
    else (splitOnce c xs).map fun (a, b) => (x :: a, b)

/-- capabilities.rs:160-169: `query.split('&').filter_map(|pair| match pair.split_once('=')
    { Some(("scheme", values)) => Some(values.split(',')), _ => None }).flatten()` -/
def urlSchemes (query : Str) : List Str :=
  (splitOn '&' query).flatMap fun pair =>
    match splitOnce '=' pair with
    | some (k, v) => if k = "scheme".toList then splitOn ',' v else []
    | none => []

def urnCap (name : String) : Str := ("ietf:params:netconf:" ++ name).toList

/-- capabilities.rs:127-182, the `match` on the five components, arm by arm.
    `raw` is the capability text (kept by `Unknown`). -/
def classify (raw : Str) (p : UriParts) : Capability :=
  let plainUrn : Bool := p.scheme == "urn".toList && p.authority == none && p.query == none && p.fragment == none
  if plainUrn && p.path == urnCap "base:1.0" then .base10
  else if plainUrn && p.path == urnCap "base:1.1" then .base11
  else if plainUrn && p.path == urnCap "capability:writable-running:1.0" then .writableRunning
  else if plainUrn && p.path == urnCap "capability:candidate:1.0" then .candidate
  else if plainUrn && p.path == urnCap "capability:confirmed-commit:1.0" then .confirmedCommit10
  else if plainUrn && p.path == urnCap "capability:confirmed-commit:1.1" then .confirmedCommit11
  else if plainUrn && p.path == urnCap "capability:rollback-on-error:1.0" then .rollbackOnError
  else if plainUrn && p.path == urnCap "capability:validate:1.0" then .validate10
  else if plainUrn && p.path == urnCap "capability:validate:1.1" then .validate11
  else if plainUrn && p.path == urnCap "capability:startup:1.0" then .startup
  else if p.scheme == "urn".toList && p.authority == none && p.path == urnCap "capability:url:1.0"
          && p.fragment == none then
    match p.query with
    | some q => .url (urlSchemes q)
    | none => .unknown raw
  else if plainUrn && p.path == urnCap "capability:xpath:1.0" then .xpath
  else if p.scheme == "http".toList && p.authority == some "xml.juniper.net".toList
          && p.path == "/netconf/junos/1.0".toList && p.query == none && p.fragment == none then .junos
  else .unknown raw

/-- `<Capability as FromStr>::from_str`: `none` parts = `UriStr::new` failed (⇒ `ReadError`, the
    server `<hello>` is rejected and no session exists). -/
def parseCapability (raw : Str) (parts : Option UriParts) : Option Capability :=
  parts.map (classify raw)

/-- result of `quick_xml::escape::unescape` on the query component (annotated input) -/
inductive Unescaped where
  /-- no query, or no character reference in it -/
  | same
  /-- malformed / unknown reference -/
  | error
  | text (q : Str)
  deriving DecidableEq, Repr

/-- The content of one `<capability>` element: the span between the tags exactly as it stands in
    the XML document (character references such as `&amp;` **not** resolved — this is what
    `reader.read_text` returns) without surrounding whitespace (`span.trim()`), i.e. the text the
    code hands to `UriStr::new` (capabilities.rs:64-66); iri-string's verdict/decomposition of
    that text; and its query with character references resolved. -/
structure CapText where
  text : Str
  parts : Option UriParts
  queryUnescaped : Unescaped
  deriving DecidableEq, Repr

/-- capabilities.rs:64-66 + `from_str`.  `unescapeQuery = false` is the tree as it is: the
    `:url:1.0` query is split at the `&` of `&amp;` and a `scheme` argument that is not the first
    argument is lost (deviation E3).  `unescapeQuery = true` is the repaired parser, which resolves
    the references in the query of the `:url:1.0` capability before splitting it. -/
def readCapability (unescapeQuery : Bool) (t : CapText) : Option Capability :=
  match t.parts with
  | none => none
  | some p =>
    match classify t.text p with
    | .url schemes =>
      if unescapeQuery then
        match t.queryUnescaped with
        | .same => some (.url schemes)
        | .text q => some (.url (urlSchemes q))
        | .error => none
      else some (.url schemes)
    | c => some c

/-- `Capabilities::read_xml` (capabilities.rs:56-79): every `<capability>` must parse; the result
    is a set (`HashSet`), modelled as a list used only through membership. -/
def parseCapabilities (unescape : Bool) : List CapText → Option (List Capability)
  | [] => some []
  | t :: rest =>
    match readCapability unescape t, parseCapabilities unescape rest with
    | some c, some cs => some (c :: cs)
    | _, _ => none

/-- capabilities.rs:284-290 -/
inductive Requirements where
  | none
  | one (c : Capability)
  | any (cs : List Capability)
  | all (cs : List Capability)
  deriving DecidableEq, Repr

/-- `Capabilities::contains` -/
def contains (caps : List Capability) (c : Capability) : Bool := caps.contains c

/-- capabilities.rs:292-306 -/
def Requirements.check (r : Requirements) (caps : List Capability) : Bool :=
  match r with
  | .none => true
  | .one c => contains caps c
  | .any cs => cs.any (contains caps)
  | .all cs => cs.all (contains caps)

/-- operation/mod.rs:319-331, the search in `Url::try_new`: some advertised `Url(schemes)`
    capability lists exactly this scheme (string equality, case-sensitive). -/
def urlSchemeAdvertised (caps : List Capability) (scheme : Str) : Bool :=
  caps.any fun
    | .url schemes => schemes.contains scheme
    | _ => false

end Caps
