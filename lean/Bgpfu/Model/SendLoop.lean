import Bgpfu.Model.Framing
/-
Model of the write side of `SendHandle::send` of the byte-stream transports
  netconf/src/transport/tls.rs:105-108          `self.write.write_all(&data).await?; self.write.flush().await?;`
  netconf/src/transport/junos_local.rs:115-118  (the same two calls)
and of the loop inside `write_all` (tokio `io/util/write_all.rs`, `WriteAll::poll`):

    while !buf.is_empty() {
        let n = ready!(writer.poll_write(cx, buf))?;     // the kernel / TLS layer accepts n ≤ buf.len() bytes
        buf = &buf[n..];
        if n == 0 { return Err(WriteZero) }
    }
    Ok(())

Import-free (only `Bgpfu.Model.Framing`, for `Byte`).

One `poll_write` is one element of `caps`: the number of bytes the writer is prepared to accept in this call
(the call writes `min cap buf.len()` bytes). `0` stands for a failed call (`Err(_)`, or `Ok(0)` = WriteZero):
the loop stops with an error. Running out of `caps` with data left is "blocked for good / the peer stopped
reading": not everything was written.
-/
namespace Framing

/-- `write_all`: the chunks handed to the writer, in order, and whether the whole of `data` was written
(`Ok(())`). -/
def writeAll : (data : List Byte) → (caps : List Nat) → List (List Byte) × Bool
  | [], _ => ([], true)                                   -- `while !buf.is_empty()` exits
  | _ :: _, [] => ([], false)
  | d :: ds, c :: caps =>
    if c = 0 then ([], false)                             -- `?` / WriteZero
    else
      let (chunks, ok) := writeAll ((d :: ds).drop c) caps
      ((d :: ds).take c :: chunks, ok)

/-- the variant with a single `write_buf` / `write` call instead of the loop: one partial write, and the
rest of `data` is dropped. Second component: whether the whole of `data` was written. -/
def writeOnce (data : List Byte) (caps : List Nat) : List (List Byte) × Bool :=
  match data, caps with
  | [], _ => ([], true)
  | _ :: _, [] => ([], false)
  | d :: ds, c :: _ => if c = 0 then ([], false) else ([(d :: ds).take c], decide ((d :: ds).length ≤ c))

/-- what the peer's socket carries after a sequence of `send` calls, each with its own partial-write
sizes: the chunks, in the order they were written -/
def writeMany (w : List Byte → List Nat → List (List Byte) × Bool) : List (List Byte × List Nat) → List (List Byte)
  | [] => []
  | (data, caps) :: rest => (w data caps).1 ++ writeMany w rest

end Framing
