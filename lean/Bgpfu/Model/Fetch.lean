import Bgpfu.Model.Xml
import Bgpfu.Model.Readers
/-
Event-level model of the agent's configuration readers (C16), /repo/junos-agent/src/policies/fetch.rs:
  fetch.rs:54-58     read_name                                  → `readName`
  fetch.rs:60-141    impl<T> ReadXml for Policies<T>            → `policiesLoop`, `configurationLoop`,
                                                                   `policyOptionsLoop` (generic in the
                                                                   statement reader `Maybe<T>::read_xml`)
  fetch.rs:143-241   impl ReadXml for Maybe<Candidate>          → `attrLoop`, `bodyLoop`, `thenLoop`,
                                                                   `readCandidate`
  policies/verif.rs:21-34  read_data (hook facade)              → `readData`
One Lean function per Rust loop, one `match` arm per Rust arm, same order and guards; `fuel` is
decremented once per iteration. Library results are inputs: `parseExpr` is
`<rpsl::expr::MpFilterExpr as FromStr>::from_str` followed by `Display` (`none` = parse error),
`unescape` is `quick_xml::escape::unescape` (`none` = error). Attribute values arrive unescaped
(`Attr.value`, `none` = `unescape_value()` fails).

`FCfg` selects between the code as it is in /repo now (`.pinned`) and the proposed repair (`.fixed`):
  skipOther   fetch.rs:213-216, 222-225  pinned: any other event inside an annotated statement (or inside
              its `<then>`) is `UnexpectedXmlEvent` for the whole document; repaired: child elements,
              text and CDATA are skipped, the statement is remembered as having other content and is
              not selected
  thenOnce    fetch.rs:200  pinned: `<then>` is accepted while no `<reject/>` has been seen
              (`!reject_policy`), so `<then></then><then><reject/></then>` is read as a default reject;
              repaired: `<then>` is accepted once
Import-free apart from Model.Xml / Model.Readers.
-/
namespace Xml

structure FCfg where
  skipOther : Bool
  thenOnce : Bool
  deriving DecidableEq, Repr, Inhabited

def FCfg.pinned : FCfg := { skipOther := false, thenOnce := false }
def FCfg.fixed : FCfg := { skipOther := true, thenOnce := true }

/-- policies/mod.rs:78-81 `FilterExpr`; `parsed` carries the `Display` form of the parsed expression -/
inductive FExpr where
  | parsed (display : String)
  | malformed (raw : String)
  deriving DecidableEq, Repr, Inhabited

/-! ### the annotation text (fetch.rs:164-167) -/

def isDecor (c : Char) : Bool := c == '/' || c == '*'

/-- `str::trim_matches(['/', '*'].as_slice())` -/
def trimMatchesL (l : List Char) : List Char :=
  ((l.dropWhile isDecor).reverse.dropWhile isDecor).reverse

/-- `str::strip_prefix` -/
def stripPrefixL : (p l : List Char) → Option (List Char)
  | [], l => some l
  | _ :: _, [] => none
  | a :: p, b :: l => if a == b then stripPrefixL p l else none

def FLTR_PREFIX : List Char := "bgpfu-fltr:".toList

/-- `attr_value.trim_matches(['/','*']).trim().strip_prefix("bgpfu-fltr:")` -/
def annotationRaw (v : String) : Option String :=
  (stripPrefixL FLTR_PREFIX (trimL (trimMatchesL v.toList))).map String.ofList

/-- fetch.rs:168-180: `raw.parse::<MpFilterExpr>()`: `Ok` → `Parsed`, `Err` → `Malformed(raw.trim())` -/
def toFExpr (parseExpr : String → Option String) (raw : String) : FExpr :=
  match parseExpr raw with
  | some d => .parsed d
  | none => .malformed (trim raw)

/-! ### Maybe<Candidate>::read_xml -/

/-- outcome of the attribute loop: early return (inactive) or the value of `maybe_filter_expr` -/
inductive AttrOutcome where
  | inactive
  | expr (e : Option FExpr)
  deriving DecidableEq, Repr, Inhabited

/-- fetch.rs:152-185 `for attr in start.attributes().with_checks(false)` -/
def attrLoop (parseExpr : String → Option String) : (acc : Option FExpr) → List AttrItem → Except Err AttrOutcome
  | acc, [] => .ok (.expr acc)
  | _, .bad :: _ => .error .other                       -- `attr.map_err(ReadError::Other)?`
  | acc, .ok a :: rest =>
    -- arm 1: (Bound(JCMD), name) if name == b"active" && attr.unescape_value()? == "false"
    if a.ns == .bound JCMD && a.lname == "active" then
      (match a.value with
       | none => .error .xml
       | some v =>
         if v == "false" then .ok .inactive
         else attrLoop parseExpr acc rest               -- arm 2 does not match `active`; arm 3: continue
      )
    -- arm 2: (Bound(JCMD), name) if name == b"comment"
    else if a.ns == .bound JCMD && a.lname == "comment" then
      (match a.value with
       | none => .error .xml
       | some v =>
         match annotationRaw v with
         | some raw => attrLoop parseExpr (some (toFExpr parseExpr raw)) rest
         | none => attrLoop parseExpr acc rest
      )
    -- arm 3
    else attrLoop parseExpr acc rest

/-- fetch.rs:54-58 `read_name`: `read_text` + `quick_xml::escape::unescape` -/
def readName (unescape : String → Option String) (t : Tag) (rest : List Ev) : Except Err (String × List Ev) :=
  match readText t rest with
  | .error e => .error e
  | .ok (s, r) =>
    match unescape s with
    | some n => .ok (n, r)
    | none => .error .xml

/-- fetch.rs:204-218 the loop over the children of `<then>`; state: `reject_policy`, and (repaired
code only) whether anything but `<reject/>` and comments was seen -/
def thenLoop (c : FCfg) : (fuel : Nat) → (endRaw : String) → (reject other : Bool) → List Ev → Except Err ((Bool × Bool) × List Ev)
  | 0, _, _, _, _ => .error .fuel
  | _ + 1, _, _, _, [] => .error .xml
  | fuel + 1, endRaw, reject, other, ev :: rest =>
    match ev with
    | .error => .error .xml
    | .empty t =>
      if t.is XNM "reject" then thenLoop c fuel endRaw true other rest
      else if c.skipOther then thenLoop c fuel endRaw reject true rest
      else .error .unexpected
    | .comment => thenLoop c fuel endRaw reject other rest
    | .end raw => if raw == endRaw then .ok ((reject, other), rest) else .error .unexpected
    | .start t =>
      if c.skipOther then
        (match skipToEnd t.raw rest 0 with
         | .ok r => thenLoop c fuel endRaw reject true r
         | .error e => .error e)
      else .error .unexpected
    | .text _ => if c.skipOther then thenLoop c fuel endRaw reject true rest else .error .unexpected
    | .cdata => if c.skipOther then thenLoop c fuel endRaw reject true rest else .error .unexpected
    | _ => .error .unexpected

structure BodySt where
  name : Option String := none
  reject : Bool := false
  thenSeen : Bool := false
  other : Bool := false
  deriving DecidableEq, Repr, Inhabited

/-- guard of the `<then>` arm: fetch.rs:200 `!reject_policy`; repaired: `!then_seen` -/
def BodySt.thenOpen (c : FCfg) (st : BodySt) : Bool :=
  if c.thenOnce then !st.thenSeen else !st.reject

/-- fetch.rs:192-227 the loop over the children of an annotated `<policy-statement>` -/
def bodyLoop (c : FCfg) (unescape : String → Option String) :
    (fuel : Nat) → (endRaw : String) → BodySt → List Ev → Except Err (BodySt × List Ev)
  | 0, _, _, _ => .error .fuel
  | _ + 1, _, _, [] => .error .xml
  | fuel + 1, endRaw, st, ev :: rest =>
    match ev with
    | .error => .error .xml
    | .start t =>
      if t.is XNM "name" && st.name.isNone then
        (match readName unescape t rest with
         | .ok (n, r) => bodyLoop c unescape fuel endRaw { st with name := some n } r
         | .error e => .error e)
      else if t.is XNM "then" && st.thenOpen c then
        (match thenLoop c fuel t.raw st.reject st.other rest with
         | .ok ((rj, ot), r) => bodyLoop c unescape fuel endRaw { st with reject := rj, other := ot, thenSeen := true } r
         | .error e => .error e)
      else if c.skipOther then
        (match skipToEnd t.raw rest 0 with
         | .ok r => bodyLoop c unescape fuel endRaw { st with other := true } r
         | .error e => .error e)
      else .error .unexpected
    | .comment => bodyLoop c unescape fuel endRaw st rest
    | .end raw => if raw == endRaw then .ok (st, rest) else .error .unexpected
    | .empty _ => if c.skipOther then bodyLoop c unescape fuel endRaw { st with other := true } rest else .error .unexpected
    | .text _ => if c.skipOther then bodyLoop c unescape fuel endRaw { st with other := true } rest else .error .unexpected
    | .cdata => if c.skipOther then bodyLoop c unescape fuel endRaw { st with other := true } rest else .error .unexpected
    | _ => .error .unexpected

/-- fetch.rs:228-239 (repaired: a statement with other content is not a candidate) -/
def BodySt.finish (st : BodySt) (fe : FExpr) : Except Err (Option (String × FExpr)) :=
  if st.reject && !st.other then
    match st.name with
    | some n => .ok (some (n, fe))
    | none => .error .missing
  else .ok none

/-- `_ = reader.read_to_end(end.name())?; return Ok(Self(None))` -/
def skipStmt {α} (t : Tag) (rest : List Ev) : Except Err (Option α × List Ev) :=
  match skipToEnd t.raw rest 0 with
  | .ok r => .ok (none, r)
  | .error e => .error e

/-- fetch.rs:143-241 `Maybe<Candidate>::read_xml`, called right after `Start(t)` -/
def readCandidate (c : FCfg) (parseExpr unescape : String → Option String) (fuel : Nat) (t : Tag) (rest : List Ev) :
    Except Err (Option (String × FExpr) × List Ev) :=
  match attrLoop parseExpr none t.attrs with
  | .error e => .error e
  | .ok .inactive => skipStmt t rest
  | .ok (.expr none) => skipStmt t rest
  | .ok (.expr (some fe)) =>
    match bodyLoop c unescape fuel t.raw {} rest with
    | .error e => .error e
    | .ok (st, r) =>
      match st.finish fe with
      | .error e => .error e
      | .ok v => .ok (v, r)

/-! ### Policies<T>::read_xml (generic in the statement reader) -/

/-- `Maybe<T>::read_xml` as a function of fuel, start tag and the events after it -/
abbrev StmtReader (T : Type) := Nat → Tag → List Ev → Except Err (Option (String × T) × List Ev)

/-- fetch.rs:87-116 the loop over the children of `<policy-options>`; `map` in insertion order -/
def policyOptionsLoop {T} (rd : StmtReader T) : (fuel : Nat) → (endRaw : String) → (map : List (String × T)) → List Ev →
    Except Err (List (String × T) × List Ev)
  | 0, _, _, _ => .error .fuel
  | _ + 1, _, _, [] => .error .xml
  | fuel + 1, endRaw, map, ev :: rest =>
    match ev with
    | .error => .error .xml
    | .start t =>
      if t.is XNM "policy-statement" then
        (match rd fuel t rest with
         | .ok (some (n, p), r) =>
           if map.any (·.1 == n) then .error .other      -- duplicate policy-statement
           else policyOptionsLoop rd fuel endRaw (map ++ [(n, p)]) r
         | .ok (none, r) => policyOptionsLoop rd fuel endRaw map r
         | .error e => .error e)
      else .error .unexpected
    | .comment => policyOptionsLoop rd fuel endRaw map rest
    | .end raw => if raw == endRaw then .ok (map, rest) else .error .unexpected
    | _ => .error .unexpected

/-- fetch.rs:78-125 the loop over the children of `<configuration>` -/
def configurationLoop {T} (rd : StmtReader T) : (fuel : Nat) → (endRaw : String) → (seen : Bool) → (map : List (String × T)) →
    List Ev → Except Err (List (String × T) × List Ev)
  | 0, _, _, _, _ => .error .fuel
  | _ + 1, _, _, _, [] => .error .xml
  | fuel + 1, endRaw, seen, map, ev :: rest =>
    match ev with
    | .error => .error .xml
    | .start t =>
      if t.is XNM "policy-options" && !seen then
        (match policyOptionsLoop rd fuel t.raw map rest with
         | .ok (map', r) => configurationLoop rd fuel endRaw true map' r
         | .error e => .error e)
      else .error .unexpected
    | .comment => configurationLoop rd fuel endRaw seen map rest
    | .end raw => if raw == endRaw then .ok (map, rest) else .error .unexpected
    | _ => .error .unexpected

/-- fetch.rs:69-139 the loop over the children of `<data>` -/
def policiesLoop {T} (rd : StmtReader T) : (fuel : Nat) → (endRaw : String) → (this : Option (List (String × T))) →
    List Ev → Except Err (List (String × T))
  | 0, _, _, _ => .error .fuel
  | _ + 1, _, _, [] => .error .xml
  | fuel + 1, endRaw, this, ev :: rest =>
    match ev with
    | .error => .error .xml
    | .start t =>
      if t.is XNM "configuration" && this.isNone then
        (match configurationLoop rd fuel t.raw false [] rest with
         | .ok (map, r) => policiesLoop rd fuel endRaw (some map) r
         | .error e => .error e)
      else .error .unexpected
    | .comment => policiesLoop rd fuel endRaw this rest
    | .end raw =>
      if raw == endRaw then (match this with | some m => .ok m | none => .error .missing)
      else .error .unexpected
    | _ => .error .unexpected

/-- `Policies<Candidate>::read_xml(reader, start)` with the reader standing right after `<data>`
(`dataRaw` = qualified name of the data element); result in document order -/
def readCandidates (c : FCfg) (parseExpr unescape : String → Option String) (dataRaw : String) (evs : List Ev) :
    Except Err (List (String × FExpr)) :=
  policiesLoop (readCandidate c parseExpr unescape) (evs.length + 1) dataRaw none evs

/-- policies/verif.rs:21-34 `read_data`: skip to the first start tag with local name `data` -/
def readData {α} (k : Tag → List Ev → Except Err α) : List Ev → Except Err α
  | [] => .error .xml
  | .error :: _ => .error .xml
  | .eof :: _ => .error .missing
  | .start t :: rest => if t.lname == "data" then k t rest else readData k rest
  | _ :: rest => readData k rest

/-- `agent::verif::read_candidates(reply_xml)` on the events of the whole reply document -/
def readCandidatesDoc (c : FCfg) (parseExpr unescape : String → Option String) (evs : List Ev) :
    Except Err (List (String × FExpr)) :=
  readData (fun t rest => readCandidates c parseExpr unescape t.raw rest) evs

end Xml
