/-
XML event model shared by all reader models (C08, C12, C13, C14, C16, C01).

The real readers are hand-written pull parsers over quick-xml 0.31 `NsReader` events
(`read_resolved_event`, `trim_text(true)`, end-name checking on). The tokenizer itself is trusted
and only exercised; the harness tokenises each message once and hands the model the event list:

* element events carry the namespace *resolution result*, local name, raw qualified name, the
  attribute list as iterated `with_checks(false)` (resolved + unescaped), and `span`: the raw
  source text `read_text` would return if called right after this start tag (the bytes between
  the start tag and its literally-matching end tag — not unescaped, not trimmed), or `none` if
  there is no matching end tag.
* `error` is the first tokenizer error (the readers propagate it with `?`), `eof` is `Event::Eof`.
Import-free.
-/
namespace Xml

inductive Ns where
  | bound (uri : String)
  | unbound
  | unknown
  deriving DecidableEq, Repr, Inhabited

structure Attr where
  key : String            -- raw qualified name, e.g. "message-id", "jcmd:comment"
  ns : Ns                 -- `resolve_attribute`
  lname : String          -- local name
  value : Option String   -- unescaped value; `none` = `unescape_value()` fails
  deriving DecidableEq, Repr, Inhabited

/-- one item of `attributes().with_checks(false)` -/
inductive AttrItem where
  | ok (a : Attr)
  | bad                   -- the iterator yields `Err` here
  deriving DecidableEq, Repr, Inhabited

structure Tag where
  ns : Ns
  lname : String
  raw : String
  attrs : List AttrItem
  span : Option String
  deriving DecidableEq, Repr, Inhabited

inductive Ev where
  | start (t : Tag)
  | empty (t : Tag)
  | «end» (raw : String)
  | text (s : String)      -- trimmed, raw (still escaped)
  | cdata
  | comment
  | decl
  | pi
  | doctype
  | eof
  | error
  deriving DecidableEq, Repr, Inhabited

def BASE : String := "urn:ietf:params:xml:ns:netconf:base:1.0"
def XNM : String := "http://xml.juniper.net/xnm/1.1/xnm"
def JCMD : String := "http://yang.juniper.net/junos/jcmd"
def MARKER : String := "]]>]]>"

/-- `ResolveResult::Bound(ns) if ns == X && tag.local_name() == n` -/
def Tag.is (t : Tag) (uri name : String) : Bool :=
  t.ns == .bound uri && t.lname == name

inductive Err where
  | xml          -- tokenizer error / unexpected EOF inside read_to_end
  | unexpected   -- UnexpectedXmlEvent (catch-all arm)
  | missing      -- MissingElement / NoMessageId
  | parse        -- a leaf value failed to parse
  | mismatch     -- message-id mismatch between parse phases
  | other        -- ReadError::Other
  | fuel         -- model artefact: never returned when fuel ≥ number of events (theorem)
  deriving DecidableEq, Repr, Inhabited

/-- `read_to_end(name)`: skip to the literally matching end tag (depth counted on the raw name).
Returns the remaining events. Tokenizer error or EOF → error. Structural on the list. -/
def skipToEnd (name : String) : List Ev → Nat → Except Err (List Ev)
  | [], _ => .error .xml
  | .error :: _, _ => .error .xml
  | .eof :: _, _ => .error .xml
  | .start t :: rest, depth => if t.raw == name then skipToEnd name rest (depth + 1) else skipToEnd name rest depth
  | .end raw :: rest, depth =>
    if raw == name then (match depth with
      | 0 => .ok rest
      | d + 1 => skipToEnd name rest d)
    else skipToEnd name rest depth
  | _ :: rest, depth => skipToEnd name rest depth

/-- `read_text(tag.to_end().name())` called right after `Start(tag)`. -/
def readText (t : Tag) (rest : List Ev) : Except Err (String × List Ev) :=
  match skipToEnd t.raw rest 0 with
  | .error e => .error e
  | .ok rest' =>
    match t.span with
    | some s => .ok (s, rest')
    | none => .error .xml   -- unreachable for harness-produced lists (span = none ↔ skipToEnd fails)

/-- `try_get_attribute(name)`: first item whose raw key equals `name`; an iterator error before it
propagates. -/
def getAttr (name : String) : List AttrItem → Except Err (Option Attr)
  | [] => .ok none
  | .bad :: _ => .error .xml
  | .ok a :: rest => if a.key == name then .ok (some a) else getAttr name rest

/-! ### text helpers on `List Char` (String operations do not reduce in the kernel) -/

/-- Rust `char::is_whitespace` (Unicode White_Space) -/
def isWs (c : Char) : Bool :=
  let n := c.toNat
  (9 ≤ n && n ≤ 13) || n == 32 || n == 0x85 || n == 0xA0 || n == 0x1680 ||
  (0x2000 ≤ n && n ≤ 0x200A) || n == 0x2028 || n == 0x2029 || n == 0x202F || n == 0x205F || n == 0x3000

def trimStart (l : List Char) : List Char := l.dropWhile isWs
def trimEnd (l : List Char) : List Char := (l.reverse.dropWhile isWs).reverse
def trimL (l : List Char) : List Char := trimEnd (trimStart l)
/-- Rust `str::trim` -/
def trim (s : String) : String := String.ofList (trimL s.toList)

def digitVal (c : Char) : Option Nat :=
  if '0' ≤ c ∧ c ≤ '9' then some (c.toNat - '0'.toNat) else none

def digitsVal : List Char → Nat → Option Nat
  | [], acc => some acc
  | c :: cs, acc => match digitVal c with
    | some d => digitsVal cs (acc * 10 + d)
    | none => none

/-- Rust `<unsigned>::from_str`: optional leading `+`, at least one ASCII digit, no whitespace,
value below `bound`. -/
def stripPlus : List Char → List Char
  | '+' :: r => r
  | r => r

def parseUnsigned (bound : Nat) (s : String) : Option Nat :=
  let ds := stripPlus s.toList
  if ds.isEmpty then none else
  match digitsVal ds 0 with
  | some n => if n < bound then some n else none
  | none => none

def parseUsize (s : String) : Option Nat := parseUnsigned (2 ^ 64) s
def parseU32 (s : String) : Option Nat := parseUnsigned (2 ^ 32) s

end Xml
