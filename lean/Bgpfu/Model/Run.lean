/-
Model of one agent run as a request/reply program against a scripted server (C04):
  junos-agent/src/task.rs:45-126            Updater::run — the `?` chain
  junos-agent/src/netconf/mod.rs:96-213     Client::{open_db, fetch_config, load_config, commit_config, close_db, close}
The run is a list of *phases*; in each phase all requests are written to the transport first
(`session.rpc(..).await?` returns once the request is sent) and then their replies are awaited in
order (`.await?`). This is exactly the shape of the code: open-configuration alone; the two
get-config requests (both sent, then both awaited by `try_join!`); all N load-configuration
requests (netconf/mod.rs:160-184: a loop that sends, then a loop that awaits); commit; close-db;
close-session. Any `Err` ends the run (`?`).
Import-free.
-/
namespace Run

inductive Req where
  | openDb | getRunning | getCandidate | load (i : Nat) | commit | closeDb | closeSession
  deriving DecidableEq, Repr, Inhabited

def Req.name : Req → String
  | .openDb => "open-configuration"
  | .getRunning => "get-config"
  | .getCandidate => "get-config"
  | .load _ => "load-configuration"
  | .commit => "commit-configuration"
  | .closeDb => "close-configuration"
  | .closeSession => "close-session"

/-- what the server does with the request at a given position (1-based, in sending order) -/
inductive Fault where
  | rpcError      -- replies with an rpc-error of severity error
  | errWarnOk     -- replies with an rpc-error of severity error, one of severity warning, then <ok/>
  | errCount      -- replies with rpc-errors and (for a load) a <load-error-count>, no <ok/>
  | malformed     -- replies with bytes that do not parse
  | wrongId       -- replies with a message-id that matches no request
  | closeBefore   -- closes the connection instead of replying
  | closeAfter    -- replies positively, then closes the connection
  deriving DecidableEq, Repr, Inhabited

/-- the phases of `Updater::run` for `n` updates -/
def phases (n : Nat) : List (List Req) :=
  [[.openDb], [.getRunning, .getCandidate], (List.range n).map .load, [.commit], [.closeDb], [.closeSession]]

structure St where
  pos : Nat := 0                 -- requests sent so far
  trace : List Req := []         -- requests the server received, in order
  closedAt : Option Nat := none  -- position whose handling closed the transport
  deriving DecidableEq, Repr, Inhabited

/-- is the transport closed *before* a request at position `p` could be written?
(the close happens when the server handles position `c`; requests of the same phase are already
in flight, so only later phases see it — `phaseStart` is the first position of the current phase) -/
def sendFails (closedAt : Option Nat) (phaseStart : Nat) : Bool :=
  match closedAt with
  | some c => c < phaseStart
  | none => false

def Fault.isCloseAfter : Fault → Bool
  | .closeAfter => true
  | _ => false

def Fault.closes : Fault → Bool
  | .closeBefore => true
  | .closeAfter => true
  | _ => false

/-- outcome of awaiting the reply to position `p`: positions before the fault are answered
normally; the faulty position itself only succeeds for `closeAfter`; later positions (only reached
inside the same phase) are answered unless the connection is gone -/
def awaitOk (fault : Option (Nat × Fault)) (p : Nat) : Bool :=
  match fault with
  | none => true
  | some (fp, k) => decide (p < fp) || (p == fp && k.isCloseAfter) || (decide (fp < p) && !k.closes)

def closesAt (fault : Option (Nat × Fault)) : Option Nat :=
  match fault with
  | some (fp, k) => if k.closes then some fp else none
  | none => none

/-- run the remaining phases; `start` = number of requests sent in earlier phases -/
def runPhases (fault : Option (Nat × Fault)) : List (List Req) → (start : Nat) → (trace : List Req) → List Req × Bool
  | [], _, trace => (trace, true)
  | ph :: rest, start, trace =>
    -- sending: fails at once if the transport was closed while an earlier phase was handled
    if !ph.isEmpty && sendFails (closesAt fault) (start + 1) then (trace, false)
    else
      let trace := trace ++ ph
      -- awaiting, in order
      let oks := (List.range ph.length).map fun i => awaitOk fault (start + 1 + i)
      if oks.all id then runPhases fault rest (start + ph.length) trace
      else (trace, false)

/-- the whole run: (requests the server received, did `run()` return Ok) -/
def run (n : Nat) (fault : Option (Nat × Fault)) : List Req × Bool :=
  runPhases fault (phases n) 0 []

def commitRequested (t : List Req) : Bool := t.contains .commit

end Run
