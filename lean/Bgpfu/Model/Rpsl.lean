/-
Model of the RPSL `mp-filter` expression AST and of the traversal implemented by the `rpsl` crate
(rpsl-0.1.1 `src/expr/eval/mod.rs`, `apply.rs`, `resolver.rs`; AST in `src/expr/filter.rs`),
as instantiated by `bgpfu::RpslEvaluator` (lib/src/query.rs:87-113, `sink_error` ≡ true).
Import-free.

Prefix sets are represented *semantically*: a set is its membership predicate over
`(family, bits, len)` where `bits` is the value of the first `len` address bits.  The algebra of
`generic-ip`'s `PrefixSet` (`any`, `!`, `&`, `|`, `FromIterator<PrefixRange>`, `ranges`,
`as_partitions`) is trusted to implement exactly these set operations; the correspondence run
compares membership on probe sets.

The traversal is generic in the name resolvers (the crate's `Resolver` trait): a resolver is a
state transformer over some state `σ` that also emits observable events `ω` (queries written,
responses consumed).  `Bgpfu.Model.Irr` instantiates it with the IRRd resolvers of query.rs.
-/
namespace Rpsl

inductive Fam where
  | v4 | v6
  deriving DecidableEq, Repr

def Fam.maxLen : Fam → Nat
  | .v4 => 32
  | .v6 => 128

/-- an IP prefix: family, value of the leading `len` bits, length -/
structure Pfx where
  fam : Fam
  bits : Nat
  len : Nat
  deriving DecidableEq, Repr

/-- the length is one the address family has -/
def Pfx.Valid (p : Pfx) : Prop := p.len ≤ p.fam.maxLen

instance (p : Pfx) : Decidable p.Valid := by unfold Pfx.Valid; infer_instance

/-- the covering prefix of `q` of length `j` (for `j ≤ q.len`) -/
def Pfx.trunc (q : Pfx) (j : Nat) : Pfx :=
  { fam := q.fam, bits := q.bits >>> (q.len - j), len := j }

/-- `p` covers `q`: same family, not longer, and equal on `p`'s bits -/
def Pfx.covers (p q : Pfx) : Bool :=
  decide (p.len ≤ q.len) && decide (q.trunc p.len = p)

/-- a set of prefixes, as its membership predicate -/
abbrev PSet := Pfx → Bool

def PSet.empty : PSet := fun _ => false
/-- `PrefixSet::any()` -/
def PSet.any : PSet := fun _ => true
def PSet.not (s : PSet) : PSet := fun q => !s q
def PSet.and (s t : PSet) : PSet := fun q => s q && t q
def PSet.or (s t : PSet) : PSet := fun q => s q || t q

/-- RPSL range operators (rpsl `primitive::RangeOperator`) -/
inductive RangeOp where
  | none
  | lessExcl              -- `^-`
  | lessIncl              -- `^+`
  | exact (n : Nat)       -- `^n`
  | range (n m : Nat)     -- `^n-m`
  deriving DecidableEq, Repr

/-- `ip::PrefixRange`: covering prefix and an inclusive length interval -/
structure Range where
  pfx : Pfx
  lo : Nat
  hi : Nat
  deriving DecidableEq, Repr

def Range.mem (r : Range) (q : Pfx) : Bool :=
  r.pfx.covers q && decide (r.lo ≤ q.len) && decide (q.len ≤ r.hi)

/-- `From<Prefix> for PrefixRange` -/
def Range.ofPfx (p : Pfx) : Range := { pfx := p, lo := p.len, hi := p.len }

/-- `PrefixSet: FromIterator<PrefixRange>` -/
def PSet.ofRanges (rs : List Range) : PSet := fun q => rs.any (·.mem q)

/-- `PrefixSet: FromIterator<Prefix>` -/
def PSet.ofPfxs (ps : List Pfx) : PSet := fun q => ps.any (· == q)

/-- rpsl `eval/apply.rs` `Apply::apply` on one range, with generic-ip's `with_length_range`
(`lower = max(self.lower, start)`, `upper = end`, valid iff `lower ≤ upper`; the original upper
bound is discarded), `or_longer`, `or_longer_excl`, `new_prefix_length` (fails above the family's
maximum).  `none` = `Err(RangeOperator{..})`, which `collect_results` hands to `sink_error`
(always true ⇒ dropped); `some none` = `Ok(None)` (filtered out). -/
def applyRange (op : RangeOp) (r : Range) : Option (Option Range) :=
  let M := r.pfx.fam.maxLen
  match op with
  | .none => some (some r)
  | .lessIncl => some (some { r with hi := M })
  | .lessExcl => if r.lo + 1 ≤ M then some (some { r with lo := r.lo + 1, hi := M }) else some none
  | .exact n =>
    if M < n then none
    else if max r.lo n ≤ n then some (some { r with lo := max r.lo n, hi := n }) else some none
  | .range n m =>
    if M < n ∨ M < m then none
    else if max r.lo n ≤ m then some (some { r with lo := max r.lo n, hi := m }) else some none

/-- the ranges that survive `collect_results(… filter_map(apply …))` with `sink_error ≡ true` -/
def applyRanges (op : RangeOp) (rs : List Range) : List Range :=
  rs.filterMap fun r => match applyRange op r with
    | some (some r') => some r'
    | _ => none

/-- What the operator makes of a member prefix of length `j` in a family with maximum length `M`:
the interval of lengths of its more-specifics that are produced (`none`: nothing). -/
def opInterval (op : RangeOp) (M j : Nat) : Option (Nat × Nat) :=
  match op with
  | .none => some (j, j)
  | .lessIncl => some (j, M)
  | .lessExcl => if j + 1 ≤ M then some (j + 1, M) else none
  | .exact n => if n ≤ M ∧ j ≤ n then some (n, n) else none
  | .range n m => if n ≤ M ∧ m ≤ M ∧ max j n ≤ m then some (max j n, m) else none

/-- `Literal::PrefixSet(set, op)`: the operator applied to `output.ranges()`.  The result does not
depend on how `ranges()` aggregates the set (lemma `applyOp_ofRanges` in `Lemmas/Rpsl.lean`), so it is
modelled on the set itself: `q` is produced iff some member covering `q` admits `q`'s length. -/
def applyOp (op : RangeOp) (s : PSet) : PSet := fun q =>
  (List.range (q.len + 1)).any fun j =>
    s (q.trunc j) &&
      match opInterval op q.fam.maxLen j with
      | some (a, b) => decide (a ≤ q.len) && decide (q.len ≤ b)
      | none => false

/-! ### AST (rpsl `filter::Expr<Any>` = `MpFilterExpr`, Term/Expr levels merged) -/

/-- `filter::NamedPrefixSet` -/
inductive Named where
  | rsAny | asAny | peerAs
  | routeSet (n : String)
  | asSet (n : String)
  | autNum (a : Nat)
  deriving DecidableEq, Repr

/-- `filter::PrefixSetExpr` -/
inductive PrefixSetExpr where
  | lit (ms : List (Pfx × RangeOp))
  | named (n : Named)
  deriving DecidableEq, Repr

inductive Expr where
  | any                                               -- Term::Any
  | prefixSet (s : PrefixSetExpr) (op : RangeOp)      -- Literal::PrefixSet
  | asPath                                            -- Literal::AsPath      (`<^AS1 .*>`)
  | attrMatch                                         -- Literal::AttrMatch   (`community(…)`)
  | filterSet (n : String)                            -- Term::Named
  | not (e : Expr)
  | and (a b : Expr)
  | or (a b : Expr)
  deriving DecidableEq, Repr

/-! ### unparenthesised operator sequences: `[NOT]* a₀ (AND|OR) [NOT]* a₁ …` -/

inductive BinOp where
  | and | or
  deriving DecidableEq, Repr

def BinOp.mk : BinOp → Expr → Expr → Expr
  | .and => .and
  | .or => .or

def nots : Nat → Expr → Expr
  | 0, e => e
  | k + 1, e => .not (nots k e)

/-- how the rpsl crate's grammar reads the sequence (grammar.pest:344-348:
`expr = term AND expr | term OR? expr | NOT expr | term`): right-nested, all operators of equal
precedence, and a `NOT` extends over everything to its right -/
def parseCrate : Nat × Expr → List (BinOp × Nat × Expr) → Expr
  | (k, a), [] => nots k a
  | (k, a), (op, x) :: rest => nots k (op.mk a (parseCrate x rest))

/-- RFC 2622 §5.4: "NOT has the highest precedence, followed by AND, and then OR".  Returns the
current AND-group and the already finished OR-tail. -/
def parseRfcAux : Nat × Expr → List (BinOp × Nat × Expr) → Expr × Option Expr
  | (k, a), [] => (nots k a, none)
  | (k, a), (op, x) :: rest =>
    match parseRfcAux x rest with
    | (g, t) =>
      match op with
      | .and => (.and (nots k a) g, t)
      | .or => (nots k a, some (match t with
          | none => g
          | some t => .or g t))

def parseRfc (first : Nat × Expr) (rest : List (BinOp × Nat × Expr)) : Expr :=
  match parseRfcAux first rest with
  | (g, none) => g
  | (g, some t) => .or g t

/-! ### Outcomes -/

/-- why a resolver failed (`Err`), as far as the harness can observe it -/
inductive ErrKind where
  | keyNotFound | keyNotUnique | other     -- irrc::Error::ResponseErr(_, D | E | F)
  | acquire                               -- Error::AcquireConnection
  | dequeue                               -- irrc::Error::Dequeue
  | unsupported                           -- (fixed) PeerAS is reported as an error
  deriving DecidableEq, Repr

inductive PanicKind where
  | peerAs        -- query.rs:238 `unimplemented!()`
  | asPath        -- rpsl eval/mod.rs:111 `todo!()`
  | attrMatch     -- rpsl eval/mod.rs:112 `todo!()`
  deriving DecidableEq, Repr

inductive Outcome (α : Type) where
  | ok (a : α)
  | err (e : ErrKind)       -- `Err(EvaluationError::Resolution{..})`
  | panic (k : PanicKind)   -- the thread unwinds
  | diverge                 -- unbounded filter-set recursion (fuel exhausted)

def Outcome.isOk {α} : Outcome α → Bool
  | .ok _ => true
  | _ => false

def Outcome.map {α β} (f : α → β) : Outcome α → Outcome β
  | .ok a => .ok (f a)
  | .err e => .err e
  | .panic k => .panic k
  | .diverge => .diverge

/-- a computation over resolver state `σ` emitting events `ω` -/
abbrev M (σ ω α : Type) := σ → Outcome α × σ × List ω

def M.pure {σ ω α} (a : α) : M σ ω α := fun s => (.ok a, s, [])

/-- `?`-sequencing: the continuation only runs after `Ok` -/
def M.bind {σ ω α β} (x : M σ ω α) (f : α → M σ ω β) : M σ ω β := fun s =>
  match x s with
  | (.ok a, s', ev) =>
    match f a s' with
    | (o, s'', ev') => (o, s'', ev ++ ev')
  | (.err e, s', ev) => (.err e, s', ev)
  | (.panic k, s', ev) => (.panic k, s', ev)
  | (.diverge, s', ev) => (.diverge, s', ev)

/-- the crate's `Resolver<'_, I, O>` impls required by `Evaluate for filter::Expr<A>` -/
structure Resolvers (σ ω : Type) where
  filterSet : String → M σ ω Expr
  asSet : String → M σ ω PSet
  routeSet : String → M σ ω PSet
  autNum : Nat → M σ ω PSet
  peerAs : M σ ω PSet

/-- `apply(prefix, op)` on one `<prefix><op>` member, errors sunk: the range it contributes, if any -/
def memberRange (op : RangeOp) (p : Pfx) : Option Range :=
  match applyRange op (Range.ofPfx p) with
  | some (some r) => some r
  | _ => none

/-- `Evaluate for PrefixSetExpr::Literal`: `collect_results(filter_map(apply(prefix, op)))` -/
def litSet (ms : List (Pfx × RangeOp)) : PSet :=
  PSet.ofRanges (ms.filterMap fun m => memberRange m.2 m.1)

/-- `Evaluate for NamedPrefixSet` (eval/mod.rs:150-158) -/
def evalNamed {σ ω} (R : Resolvers σ ω) : Named → M σ ω PSet
  | .rsAny => M.pure PSet.any
  | .asAny => M.pure PSet.any
  | .peerAs => R.peerAs
  | .routeSet n => R.routeSet n
  | .asSet n => R.asSet n
  | .autNum a => R.autNum a

/-- `Evaluate for PrefixSetExpr` (eval/mod.rs:127-137) -/
def evalPse {σ ω} (R : Resolvers σ ω) : PrefixSetExpr → M σ ω PSet
  | .lit ms => M.pure (litSet ms)
  | .named n => evalNamed R n

/-- `Evaluate for Expr / Term / Literal` (eval/mod.rs:59-114) with the filter-set case delegated to
`self`.  Left operand first; the right operand is not evaluated after `Err`. -/
def evalWith {σ ω} (R : Resolvers σ ω) (self : Expr → M σ ω PSet) : Expr → M σ ω PSet
  | .any => M.pure PSet.any
  | .prefixSet s op => M.bind (evalPse R s) fun out => M.pure (applyOp op out)
  | .asPath => fun st => (.panic .asPath, st, [])
  | .attrMatch => fun st => (.panic .attrMatch, st, [])
  | .filterSet n => M.bind (R.filterSet n) self
  | .not e => M.bind (evalWith R self e) fun s => M.pure s.not
  | .and a b => M.bind (evalWith R self a) fun s => M.bind (evalWith R self b) fun t => M.pure (s.and t)
  | .or a b => M.bind (evalWith R self a) fun s => M.bind (evalWith R self b) fun t => M.pure (s.or t)

/-- `fuel` bounds the depth of filter-set indirection (the code recurses without bound) -/
def eval {σ ω} (R : Resolvers σ ω) : Nat → Expr → M σ ω PSet
  | 0 => evalWith R fun _ st => (.diverge, st, [])
  | fuel + 1 => evalWith R (eval R fuel)

/-- `PrefixSet<Any>::as_partitions` (junos-agent/src/policies/eval.rs:47-50): the IPv4 and the IPv6
part, each as a predicate over `(bits, len)` -/
def partition (s : PSet) : (Nat → Nat → Bool) × (Nat → Nat → Bool) :=
  (fun b l => s ⟨.v4, b, l⟩, fun b l => s ⟨.v6, b, l⟩)

end Rpsl
