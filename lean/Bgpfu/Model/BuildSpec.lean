/-
RFC 6241 requirements attached to the *use of a builder call* (needed to state the converse
direction of C09 call by call, and by the spec op to judge a local refusal):

  `opRequires b`      what the operation itself needs (section 8: commit / discard-changes need
                      :candidate, cancel-commit :confirmed-commit:1.1, validate :validate; Junos
                      operations the Junos capability)
  `callRequires c`    what *specifying* that parameter with that value needs, read off the same
                      per-parameter tables as `Rfc.requires` (a parameter given explicitly counts as
                      used even if its value is the protocol default that `write_xml` elides)
  `argsValid`         argument validity that has nothing to do with capabilities (URL text is a
                      URI; kill-session id is non-zero and not the own session)
  `complete`          mandatory parameters were supplied / parameters are compatible (what
                      `finish()` insists on)
-/
import Bgpfu.Model.Builders
namespace Builders
open Caps Rfc

def unlabel (l : List Labelled) : List Requirement := l.map (·.2)

def opRequires : Build → List Requirement
  | .commit _ => [.cap .candidate]
  | .cancelCommit _ => [.cap .confirmedCommit11]
  | .discardChanges => [.cap .candidate]
  | .validate _ => [validateAny]
  | .closeConfiguration | .lockConfiguration | .unlockConfiguration
  | .openConfiguration _ | .loadConfiguration _ | .commitConfiguration _ => [.cap .junos]
  | _ => []

def Get.callRequires : Get.Call → List Requirement
  | .filter f => unlabel (filterReqs "get" f)

def GetConfig.callRequires : GetConfig.Call → List Requirement
  | .source d => unlabel (getConfigSourceReqs (.ds d))
  | .filter f => unlabel (filterReqs "get-config" f)

def EditConfig.callRequires : EditConfig.Call → List Requirement
  | .target d => unlabel (editTargetReqs (.ds d))
  | .config => []
  | .url (some s) => unlabel (contentReqs (.url s))
  | .url none => []
  | .defaultOperation _ => []
  | .errorOption e => unlabel (errorOptReqs (some e))
  | .testOption t => unlabel (testOptReqs (some t))

def CopyConfig.callRequires : CopyConfig.Call → List Requirement
  | .target d => unlabel (copyTargetReqs (.ds d))
  | .source d => unlabel (sourceReqs "copy-config" (.ds d))
  | .config => []

def DeleteConfig.callRequires : DeleteConfig.Call → List Requirement
  | .target d => unlabel (deleteTargetReqs (.ds d))
  | .url (some s) => unlabel (deleteTargetReqs (.url s))
  | .url none => []

def Lock.callRequires (op : String) : Lock.Call → List Requirement
  | .target d => unlabel (lockTargetReqs op (.ds d))

def Commit.callRequires : Commit.Call → List Requirement
  | .confirmed _ => unlabel (commitParamReqs true none none none)
  | .confirmTimeout s => unlabel (commitParamReqs false (some s) none none)
  | .persist t => unlabel (commitParamReqs false none (some (t.getD [])) none)
  | .persistId t => unlabel (commitParamReqs false none none (some (t.getD [])))

def CancelCommit.callRequires : CancelCommit.Call → List Requirement
  | .persistId _ => [.cap .confirmedCommit11]

def Validate.callRequires : Validate.Call → List Requirement
  | .source d => unlabel (sourceReqs "validate" (.ds d))
  | .config => []

def callsRequire : Build → List Requirement
  | .get cs => cs.flatMap Get.callRequires
  | .getConfig cs => cs.flatMap GetConfig.callRequires
  | .editConfig cs => cs.flatMap EditConfig.callRequires
  | .copyConfig cs => cs.flatMap CopyConfig.callRequires
  | .deleteConfig cs => cs.flatMap DeleteConfig.callRequires
  | .lock cs => cs.flatMap (Lock.callRequires "lock")
  | .unlock cs => cs.flatMap (Lock.callRequires "unlock")
  | .commit cs => cs.flatMap Commit.callRequires
  | .cancelCommit cs => cs.flatMap CancelCommit.callRequires
  | .validate cs => cs.flatMap Validate.callRequires
  | _ => []

def EditConfig.argValid : EditConfig.Call → Bool
  | .url none => false
  | _ => true

def DeleteConfig.argValid : DeleteConfig.Call → Bool
  | .url none => false
  | _ => true

def KillSession.argValid (ctx : Ctx) : KillSession.Call → Bool
  | .sessionId n => n ≠ 0 ∧ n ≠ ctx.sessionId

def argsValid (ctx : Ctx) : Build → Bool
  | .editConfig cs => cs.all EditConfig.argValid
  | .deleteConfig cs => cs.all DeleteConfig.argValid
  | .killSession cs => cs.all (KillSession.argValid ctx)
  | _ => true

def EditConfig.isTarget : EditConfig.Call → Bool | .target _ => true | _ => false
def EditConfig.isContent : EditConfig.Call → Bool | .config => true | .url _ => true | _ => false
def CopyConfig.isTarget : CopyConfig.Call → Bool | .target _ => true | _ => false
def CopyConfig.isSource : CopyConfig.Call → Bool | .source _ => true | .config => true | _ => false
def GetConfig.isSource : GetConfig.Call → Bool | .source _ => true | _ => false

/-- the builder's fields after the calls, ignoring all checks (last call wins) -/
def Commit.record (st : Commit.State) : Commit.Call → Commit.State
  | .confirmed b => { st with confirmed := b }
  | .confirmTimeout s => { st with confirmTimeout := s }
  | .persist t => { st with persist := t }
  | .persistId t => { st with persistId := t }

def Commit.compatible (st : Commit.State) : Bool :=
  !(st.confirmed && st.persistId.isSome) && !(!st.confirmed && st.persist.isSome)

def complete : Build → Bool
  | .getConfig cs => cs.any GetConfig.isSource
  | .editConfig cs => cs.any EditConfig.isTarget && cs.any EditConfig.isContent
  | .copyConfig cs => cs.any CopyConfig.isTarget && cs.any CopyConfig.isSource
  | .deleteConfig cs => !cs.isEmpty
  | .lock cs => !cs.isEmpty
  | .unlock cs => !cs.isEmpty
  | .killSession cs => !cs.isEmpty
  | .commit cs => Commit.compatible (cs.foldl Commit.record Commit.new)
  | .validate cs => !cs.isEmpty
  | .openConfiguration cs => !cs.isEmpty
  | .loadConfiguration cs => !cs.isEmpty
  | _ => true

/-- a capability-type refusal (as opposed to a malformed call sequence) -/
def ErrKind.isCapabilityError : ErrKind → Bool
  | .unsupportedOperation | .unsupportedOperationParameter | .unsupportedOperParameterValue
  | .unsupportedSource | .unsupportedTarget | .unsupportedLockTarget
  | .unsupportedUrlScheme | .unsupportedFilterType => true
  | _ => false

end Builders

namespace Builders
open Caps Rfc

def optList {α β} (o : Option α) (f : α → β) : List β :=
  match o with
  | none => []
  | some a => [f a]

/-- A canonical way of asking the builders for a given wire request — `none` where the public
    builder API cannot express the request at all, whatever the capabilities:
    URL sources/targets of copy-config and validate (no `url` method), explicitly written protocol
    defaults (`write_xml` elides them), `persist` / `confirm-timeout` without `confirmed`,
    `load-configuration` sources without a public constructor. -/
def callsFor : Request → Option Build
  | .get f => some (.get [.filter f])
  | .getConfig (.ds d) f => some (.getConfig [.source d, .filter f])
  | .editConfig (.ds d) dop eo to c =>
    if dop = some .merge ∨ eo = some .stopOnError ∨ to = some .testThenSet then none
    else some (.editConfig (.target d
      :: (match c with | .config => EditConfig.Call.config | .url s => .url (some s))
      :: (optList dop .defaultOperation ++ optList eo .errorOption ++ optList to .testOption)))
  | .copyConfig (.ds t) (.ds s) => some (.copyConfig [.target t, .source s])
  | .copyConfig (.ds t) .config => some (.copyConfig [.target t, .config])
  | .deleteConfig (.ds d) => some (.deleteConfig [.target d])
  | .deleteConfig (.url s) => some (.deleteConfig [.url (some s)])
  | .lock (.ds d) => some (.lock [.target d])
  | .unlock (.ds d) => some (.unlock [.target d])
  | .killSession n => some (.killSession [.sessionId n])
  | .commit true t p none =>
    if t = some defaultTimeout then none
    else some (.commit (.confirmed true :: (optList t .confirmTimeout ++ optList p (fun x => .persist (some x)))))
  | .commit false none none pid => some (.commit (optList pid (fun x => .persistId (some x))))
  | .cancelCommit pid => some (.cancelCommit (optList pid (fun x => .persistId (some x))))
  | .discardChanges => some .discardChanges
  | .validate (.ds d) => some (.validate [.source d])
  | .validate .config => some (.validate [.config])
  | .closeSession => some .closeSession
  | .junos .closeConfiguration => some .closeConfiguration
  | .junos .lockConfiguration => some .lockConfiguration
  | .junos .unlockConfiguration => some .unlockConfiguration
  | .junos (.openConfiguration .priv) => some (.openConfiguration [.priv])
  | .junos (.openConfiguration .ephemeral) => some (.openConfiguration [.ephemeral none])
  | .junos (.openConfiguration (.ephemeralInstance n)) => some (.openConfiguration [.ephemeral (some n)])
  | .junos (.loadConfiguration .rescue) => some (.loadConfiguration [.source .rescue])
  | .junos (.loadConfiguration (.config f a)) => some (.loadConfiguration [.source (.config f a)])
  | .junos (.commitConfiguration ck atT cf tm log sy) =>
    if (tm.isSome ∧ cf = false) ∨ tm = some 10 then none
    else some (.commitConfiguration (.check ck
      :: ((match atT with
            | none => []
            | some .reboot => [CommitConfiguration.Call.atReboot]
            | some .time => [.todayAt]
            | some .dateTime => [.atDateTime])
          ++ (if cf then [match tm with
                          | none => CommitConfiguration.Call.confirmed true
                          | some m => .confirmedWithTimeout (m * 60)] else [])
          ++ optList log .withLogMessage ++ optList sy .synchronize)))
  | _ => none

end Builders
