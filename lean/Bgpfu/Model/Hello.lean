import Bgpfu.Model.Readers
/-
Session establishment (C12, and the hello part of C13/C14):
  netconf/src/message/hello.rs:32-76      ServerHello::read_xml        → `helloLoop`
  netconf/src/capabilities.rs:55-85       Capabilities::read_xml       → `capsLoop`  (no Comment arm!)
  netconf/src/capabilities.rs:123-183     Capability::from_str         → `parseCapability`
  netconf/src/session.rs:52-58            SessionId::from_str (NonZeroU32) → `parseSessionId`
  netconf/src/capabilities.rs:38-52       highest_common_version       → `highestCommon`
  netconf/src/session.rs:200-226          Session::new                 → `establish`
  netconf/src/message/hello.rs:102-108    ClientHello::default         → `clientAdvertised`
URI validity / decomposition (iri-string) is an annotated input: `UriOracle`.
-/
namespace Xml

structure UriParts where
  scheme : String
  authority : Option String
  path : String
  query : Option String
  fragment : Option String
  /-- `quick_xml::escape::unescape(query)` (the capability text is the raw, still escaped span);
      `none` = no query or the references do not resolve (annotated by the harness) -/
  queryUnesc : Option String := none
  deriving DecidableEq, Repr, Inhabited

/-- `UriStr::new(s)` + component accessors; `none` = not a valid URI -/
abbrev UriOracle := String → Option UriParts

inductive Capability where
  | base10 | base11 | writableRunning | candidate | confirmedCommit10 | confirmedCommit11
  | rollbackOnError | validate10 | validate11 | startup
  | url (schemes : List String)
  | xpath
  | junos
  | unknown (uri : String)
  deriving DecidableEq, Repr, Inhabited

/-- `str::split(c)` on `List Char` -/
def splitOnChar (c : Char) : List Char → List (List Char)
  | [] => [[]]
  | x :: xs =>
    if x == c then [] :: splitOnChar c xs
    else match splitOnChar c xs with
      | [] => [[x]]
      | h :: t => (x :: h) :: t

/-- `str::split_once('=')` -/
def splitOnce (c : Char) : List Char → Option (List Char × List Char)
  | [] => none
  | x :: xs => if x == c then some ([], xs) else (splitOnce c xs).map fun (a, b) => (x :: a, b)

/-- schemes of a `:url:1.0?…` query: every `scheme=a,b` pair contributes `a`, `b` -/
def urlSchemes (query : String) : List String :=
  (splitOnChar '&' query.toList).flatMap fun pair =>
    match splitOnce '=' pair with
    | some (k, v) => if k == "scheme".toList then (splitOnChar ',' v).map String.ofList else []
    | none => []

/-- the `match (scheme, authority, path, query, fragment)` of `Capability::from_str` -/
def classifyCapability (s : String) (u : UriParts) : Capability :=
  let plain := u.authority.isNone && u.query.isNone && u.fragment.isNone && u.scheme == "urn"
  if plain && u.path == "ietf:params:netconf:base:1.0" then .base10
  else if plain && u.path == "ietf:params:netconf:base:1.1" then .base11
  else if plain && u.path == "ietf:params:netconf:capability:writable-running:1.0" then .writableRunning
  else if plain && u.path == "ietf:params:netconf:capability:candidate:1.0" then .candidate
  else if plain && u.path == "ietf:params:netconf:capability:confirmed-commit:1.0" then .confirmedCommit10
  else if plain && u.path == "ietf:params:netconf:capability:confirmed-commit:1.1" then .confirmedCommit11
  else if plain && u.path == "ietf:params:netconf:capability:rollback-on-error:1.0" then .rollbackOnError
  else if plain && u.path == "ietf:params:netconf:capability:validate:1.0" then .validate10
  else if plain && u.path == "ietf:params:netconf:capability:validate:1.1" then .validate11
  else if plain && u.path == "ietf:params:netconf:capability:startup:1.0" then .startup
  else if u.scheme == "urn" && u.authority.isNone && u.fragment.isNone
      && u.path == "ietf:params:netconf:capability:url:1.0" && u.query.isSome then
    .url (urlSchemes (u.queryUnesc.getD ""))
  else if plain && u.path == "ietf:params:netconf:capability:xpath:1.0" then .xpath
  else if u.scheme == "http" && u.authority == some "xml.juniper.net" && u.path == "/netconf/junos/1.0"
      && u.query.isNone && u.fragment.isNone then .junos
  else .unknown s

def isUrlCap (u : UriParts) : Bool :=
  u.scheme == "urn" && u.authority.isNone && u.fragment.isNone
    && u.path == "ietf:params:netconf:capability:url:1.0" && u.query.isSome

def parseCapability (o : UriOracle) (s : String) : Except Err Capability :=
  match o s with
  | none => .error .parse
  | some u =>
    -- the query of the :url capability is unescaped first; a reference that does not resolve is an error
    if isUrlCap u && u.queryUnesc.isNone then .error .xml
    else .ok (classifyCapability s u)

/-- `Capabilities::read_xml` (HashSet insert = list append; consumers only test membership) -/
def capsLoop (c : RCfg) (o : UriOracle) : (fuel : Nat) → (endRaw : String) → (acc : List Capability) → List Ev → Except Err (List Capability × List Ev)
  | 0, _, _, _ => .error .fuel
  | _ + 1, _, _, [] => .error .xml
  | fuel + 1, endRaw, acc, ev :: rest =>
    match ev with
    | .error => .error .xml
    | .start t =>
      if t.is BASE "capability" then
        (match readText t rest with
         | .ok (s, r) => (match parseCapability o (c.tok s) with
            | .ok v => capsLoop c o fuel endRaw (acc ++ [v]) r
            | .error e => .error e)
         | .error e => .error e)
      else .error .unexpected
    | .comment => if c.capsComment then capsLoop c o fuel endRaw acc rest else .error .unexpected
    | .end raw => if raw == endRaw then .ok (acc, rest) else .error .unexpected
    | _ => .error .unexpected

/-- `SessionId::from_str`: `NonZeroU32::from_str` — no trimming, `0` is a parse error -/
def parseSessionId (s : String) : Option Nat :=
  match parseU32 s with
  | some n => if n == 0 then none else some n
  | none => none

structure Hello where
  caps : List Capability
  sid : Nat
  deriving DecidableEq, Repr, Inhabited

/-- `ServerHello::read_xml` -/
def helloLoop (c : RCfg) (o : UriOracle) : (fuel : Nat) → (endRaw : String) → (caps : Option (List Capability)) → (sid : Option Nat) → List Ev → Except Err (Hello × List Ev)
  | 0, _, _, _, _ => .error .fuel
  | _ + 1, _, _, _, [] => .error .xml
  | fuel + 1, endRaw, caps, sid, ev :: rest =>
    match ev with
    | .error => .error .xml
    | .start t =>
      if t.is BASE "capabilities" && caps.isNone then
        (match capsLoop c o fuel t.raw [] rest with
         | .ok (v, r) => helloLoop c o fuel endRaw (some v) sid r
         | .error e => .error e)
      else if t.is BASE "session-id" && sid.isNone then
        (match readText t rest with
         | .ok (s, r) => (match parseSessionId (c.tok s) with
            | some n => helloLoop c o fuel endRaw caps (some n) r
            | none => .error .parse)
         | .error e => .error e)
      else .error .unexpected
    | .comment => helloLoop c o fuel endRaw caps sid rest
    | .end raw =>
      if raw == endRaw then
        (match caps, sid with
         | some c, some n => .ok ({ caps := c, sid := n }, rest)
         | _, _ => .error .missing)
      else .error .unexpected
    | _ => .error .unexpected

/-- `ServerMsg::from_xml` specialised to `ServerHello` -/
def fromXmlHello (c : RCfg) (o : UriOracle) : (fuel : Nat) → (this : Option Hello) → List Ev → Except Err Hello
  | 0, _, _ => .error .fuel
  | _ + 1, _, [] => .error .xml
  | fuel + 1, this, ev :: rest =>
    match ev with
    | .error => .error .xml
    | .start t =>
      if t.is BASE "hello" && !(c.oneRoot && this.isSome) then
        (match helloLoop c o fuel t.raw none none rest with
         | .ok (v, r) => fromXmlHello c o fuel (some v) r
         | .error e => .error e)
      else .error .unexpected
    | .comment => fromXmlHello c o fuel this rest
    | .decl => if c.declArm then fromXmlHello c o fuel this rest else .error .unexpected
    | .eof => (match this with | some v => .ok v | none => .error .missing)
    | .text s => if s == MARKER then (match this with | some v => .ok v | none => .error .missing) else .error .unexpected
    | _ => .error .unexpected

inductive Base where | v10 | v11
  deriving DecidableEq, Repr, Inhabited

/-- what `ClientHello::default()` advertises (pinned: both versions; now: 1.0 only, because
end-of-message framing is the only framing implemented) -/
def clientAdvertised (advertise11 : Bool) : List Capability :=
  if advertise11 then [.base10, .base11] else [.base10]

/-- `highest_common_version`: the greatest `Base` in the intersection -/
def highestCommon (client server : List Capability) : Option Base :=
  if client.contains .base11 && server.contains .base11 then some .v11
  else if client.contains .base10 && server.contains .base10 then some .v10
  else none

structure Context where
  sid : Nat
  version : Base
  serverCaps : List Capability
  deriving DecidableEq, Repr, Inhabited

/-- `Session::new` given the server's hello message (the client's own hello always goes out) -/
def establish (c : RCfg) (advertise11 : Bool) (o : UriOracle) (evs : List Ev) : Except Err Context :=
  match fromXmlHello c o (evs.length + 1) none evs with
  | .error e => .error e
  | .ok h =>
    match highestCommon (clientAdvertised advertise11) h.caps with
    | none => .error .other   -- Error::VersionNegotiation
    | some v => .ok { sid := h.sid, version := v, serverCaps := h.caps }

/-! ### framing (RFC 6242 §4.1) -/

inductive Framing where | endOfMessage | chunked
  deriving DecidableEq, Repr, Inhabited

/-- the only framing any transport of the library implements -/
def framingUsed : Framing := .endOfMessage

/-- RFC 6242 §4.1: chunked framing iff both peers advertised :base:1.1 -/
def framingRequired (client server : List Capability) : Framing :=
  if client.contains .base11 && server.contains .base11 then .chunked else .endOfMessage

end Xml
