/-
Model of the Junos agent's diff/patch pipeline
  junos-agent/src/policies/mod.rs      Policies<T>, Installed, Evaluated, Update, Differences, Ranges
  junos-agent/src/policies/compare.rs  Policies<Evaluated>::compare          (the five-way case split)
  junos-agent/src/policies/load.rs     Update::write_xml, Differences::write_xml  (abstract patch tree)
  junos-agent/src/policies/eval.rs     failed evaluation → `ranges: None`
  junos-agent/src/policies/fetch.rs    134-230: which running statements become candidates
Import-free.  Text (policy names, term names, family names, expressions) is `Str` = UTF-8 bytes, so
that everything reduces in the kernel.

`Cfg` parametrises the three places where the code as pinned differs from the repaired behaviour:
  skipEmptyFamily  load.rs:94-134   pinned: a family that is empty before and after is written as
                                    `<term><name>inet6</name></term>`; repaired: nothing is written (D9)
  keepMalformed    fetch.rs:143-179 pinned: a statement whose `bgpfu-fltr:` expression does not parse is
                                    dropped from the candidates; repaired: kept as an unevaluable
                                    candidate (`ranges: None`) (D10)
  unescapeNames    fetch.rs:159,247 pinned: `<name>` is taken with `read_text`, i.e. the raw,
                                    still-escaped span; repaired: unescaped (D15, names)
-/
namespace Policy

abbrev Str := List Nat

/-- "inet" -/
def inet : Str := [105, 110, 101, 116]
/-- "inet6" -/
def inet6 : Str := [105, 110, 101, 116, 54]

inductive Fam where
  | v4 | v6
  deriving DecidableEq, Repr

def Fam.name : Fam → Str
  | .v4 => inet
  | .v6 => inet6
def Fam.bits : Fam → Nat
  | .v4 => 32
  | .v6 => 128
def Fam.isV6 : Fam → Bool
  | .v4 => false
  | .v6 => true

/-- `PrefixRange<A>`: compared only by equality (the code keeps them in a `HashSet`).
`v6` records which address syntax the prefix is written in. -/
structure Range where
  v6 : Bool
  addr : Nat
  len : Nat
  lo : Nat
  hi : Nat
  deriving DecidableEq, Repr

/-- type invariant of `PrefixRange<A>` (generic-ip `Range::new`, `Prefix::new`) -/
def Range.valid (f : Fam) (r : Range) : Bool :=
  r.v6 == f.isV6 && decide (r.len ≤ r.lo) && decide (r.lo ≤ r.hi) && decide (r.hi ≤ f.bits)
    && decide (r.addr < 2 ^ f.bits) && decide (r.addr % 2 ^ (f.bits - r.len) = 0)

structure Cfg where
  skipEmptyFamily : Bool
  keepMalformed : Bool
  unescapeNames : Bool
  deriving DecidableEq, Repr

def Cfg.pinned : Cfg := { skipEmptyFamily := false, keepMalformed := false, unescapeNames := false }
def Cfg.fixed : Cfg := { skipEmptyFamily := true, keepMalformed := true, unescapeNames := true }

/-! ### `str::trim` on UTF-8 bytes
The agent's readers trim the text of token-valued leaves (`<family>` …, fetch.rs:536-541 `trimmed`)
with `str::trim`, i.e. by Unicode `White_Space`. On the byte representation used here that is: strip
the UTF-8 encodings of the 25 `White_Space` code points from both ends (UTF-8 is prefix-free and
self-synchronising, so on well-formed text this is the same as trimming characters). -/

/-- UTF-8 encodings of U+0009..U+000D, U+0020, U+0085, U+00A0, U+1680, U+2000..U+200A, U+2028, U+2029,
U+202F, U+205F, U+3000 (Rust `char::is_whitespace`) -/
def wsEncodings : List Str :=
  [[9], [10], [11], [12], [13], [32], [194, 133], [194, 160], [225, 154, 128],
   [226, 128, 128], [226, 128, 129], [226, 128, 130], [226, 128, 131], [226, 128, 132], [226, 128, 133],
   [226, 128, 134], [226, 128, 135], [226, 128, 136], [226, 128, 137], [226, 128, 138],
   [226, 128, 168], [226, 128, 169], [226, 128, 175], [226, 129, 159], [227, 128, 128]]

def stripPrefixB : (p s : Str) → Option Str
  | [], s => some s
  | _ :: _, [] => none
  | a :: p, b :: s => if a = b then stripPrefixB p s else none

/-- the rest of `s` after one leading whitespace character, if it starts with one -/
def stripWs (encs : List Str) (s : Str) : Option Str :=
  encs.findSome? fun e => stripPrefixB e s

def trimStartWith (encs : List Str) : (fuel : Nat) → Str → Str
  | 0, s => s
  | fuel + 1, s =>
    match stripWs encs s with
    | some r => trimStartWith encs fuel r
    | none => s

def trimStartB (s : Str) : Str := trimStartWith wsEncodings s.length s
def trimEndB (s : Str) : Str := (trimStartWith (wsEncodings.map List.reverse) s.length s.reverse).reverse
/-- Rust `str::trim` on UTF-8 bytes -/
def trimB (s : Str) : Str := trimEndB (trimStartB s)

/-! ### association lists (`HashMap<Name, T>`; Junos' keyed lists) -/

def keys {α} (l : List (Str × α)) : List Str := l.map (·.1)

def alGet {α} (k : Str) : List (Str × α) → Option α
  | [] => none
  | (k', v) :: rest => if k' = k then some v else alGet k rest

/-- remove every entry with key `k` -/
def alErase {α} (k : Str) (l : List (Str × α)) : List (Str × α) := l.filter (fun e => decide (e.1 ≠ k))

/-- replace the value of the first entry with key `k` in place; append if there is none -/
def alPut {α} (k : Str) (v : α) : List (Str × α) → List (Str × α)
  | [] => [(k, v)]
  | (k', v') :: rest => if k' = k then (k, v) :: rest else (k', v') :: alPut k v rest

def alSet {α} (k : Str) (o : Option α) (l : List (Str × α)) : List (Str × α) :=
  match o with
  | none => alErase k l
  | some v => alPut k v l

/-- first occurrences, in order (`collect::<HashSet<_>>()` up to iteration order) -/
def dedup {α} [DecidableEq α] : List α → List α
  | [] => []
  | x :: xs => x :: (dedup xs).filter (fun y => decide (y ≠ x))

/-! ### mod.rs -/

/-- `Installed { ipv4, ipv6 }` -/
structure Installed where
  v4 : List Range
  v6 : List Range
  deriving DecidableEq, Repr

/-- `Evaluated { filter_expr, ranges }` -/
structure Evaluated where
  expr : Str
  ranges : Option (List Range × List Range)
  deriving DecidableEq, Repr

/-- `Differences { old, new }` -/
structure Diff where
  old : Option (List Range)
  new : List Range
  deriving DecidableEq, Repr

inductive Update where
  | delete (name : Str)
  | update (name : Str) (expr : Str) (v4 v6 : Diff)
  deriving DecidableEq, Repr

def Update.name : Update → Str
  | .delete n => n
  | .update n _ _ _ => n

/-! ### compare.rs:8-51 -/

def compareOne (ev : List (Str × Evaluated)) (inst : List (Str × Installed)) (n : Str) : Option Update :=
  match alGet n ev, alGet n inst with
  | some ⟨e, some (a, b)⟩, some i => some (.update n e ⟨some i.v4, a⟩ ⟨some i.v6, b⟩)
  | some ⟨e, some (a, b)⟩, none => some (.update n e ⟨none, a⟩ ⟨none, b⟩)
  | some ⟨_, none⟩, _ => none
  | none, some _ => some (.delete n)
  | none, none => none

def compare (ev : List (Str × Evaluated)) (inst : List (Str × Installed)) : List Update :=
  (dedup (keys ev ++ keys inst)).filterMap (compareOne ev inst)

/-! ### load.rs: the payload as an abstract tree
`<configuration><policy-options><policy-statement [delete|junos:comment]><name/>
   (<term [delete]><name/>[<from><family/>(<route-filter [delete]>…)*</from>][<then><accept/></then>]</term>)*
   [<then><reject/></then>]</policy-statement></policy-options></configuration>` -/

structure PFilter where
  del : Bool
  r : Range
  deriving DecidableEq, Repr

structure PFrom where
  family : Option Str
  filters : List PFilter
  deriving DecidableEq, Repr

structure PTerm where
  del : Bool
  name : Str
  frm : Option PFrom
  accept : Bool
  deriving DecidableEq, Repr

structure PStmt where
  del : Bool
  comment : Option Str
  name : Str
  terms : List PTerm
  reject : Bool
  deriving DecidableEq, Repr

/-- `Ranges::diff` : `self.inner.difference(&other.inner)` -/
def rdiff (a b : List Range) : List Range := a.filter (fun r => decide (r ∉ b))

def addF (r : Range) : PFilter := ⟨false, r⟩
def delF (r : Range) : PFilter := ⟨true, r⟩

def oldNonEmpty (d : Diff) : Bool :=
  match d.old with
  | some o => !o.isEmpty
  | none => false

/-- load.rs:92-137 `Differences::write_xml` (zero or one `<term>`) -/
def renderDiff (c : Cfg) (f : Fam) (d : Diff) : List PTerm :=
  if c.skipEmptyFamily && d.new.isEmpty && !oldNonEmpty d then []
  else
    [{ del := d.new.isEmpty && oldNonEmpty d
       name := f.name
       frm :=
        if d.new.isEmpty then none
        else some
          { family := some f.name
            filters :=
              match d.old with
              | none => d.new.map addF
              | some o => (rdiff o d.new).map delF ++ (rdiff d.new o).map addF }
       accept := !d.new.isEmpty }]

/-- "Last updated at T from mp-filter expression " (the timestamp is canonicalised to `T`) -/
def commentPrefix : Str :=
  [76, 97, 115, 116, 32, 117, 112, 100, 97, 116, 101, 100, 32, 97, 116, 32, 84, 32, 102, 114, 111,
   109, 32, 109, 112, 45, 102, 105, 108, 116, 101, 114, 32, 101, 120, 112, 114, 101, 115, 115, 105,
   111, 110, 32]

/-- load.rs:24-90 `Update::write_xml` -/
def render (c : Cfg) : Update → PStmt
  | .delete n => { del := true, comment := none, name := n, terms := [], reject := false }
  | .update n e d4 d6 =>
    { del := false, comment := some (commentPrefix ++ e), name := n,
      terms := renderDiff c .v4 d4 ++ renderDiff c .v6 d6, reject := true }

/-- element paths written by `write_xml` (the nesting of the `create_element` calls) -/
def PTerm.paths (t : PTerm) : List (List String) :=
  let base := ["configuration", "policy-options", "policy-statement", "term"]
  [base, base ++ ["name"]]
  ++ (match t.frm with
      | none => []
      | some f =>
        [base ++ ["from"]]
        ++ (match f.family with | none => [] | some _ => [base ++ ["from", "family"]])
        ++ f.filters.flatMap (fun _ =>
            [base ++ ["from", "route-filter"], base ++ ["from", "route-filter", "address"],
             base ++ ["from", "route-filter", "prefix-length-range"]]))
  ++ (if t.accept then [base ++ ["then"], base ++ ["then", "accept"]] else [])

def PStmt.paths (p : PStmt) : List (List String) :=
  let base := ["configuration", "policy-options", "policy-statement"]
  [["configuration"], ["configuration", "policy-options"], base, base ++ ["name"]]
  ++ p.terms.flatMap PTerm.paths
  ++ (if p.reject then [base ++ ["then"], base ++ ["then", "reject"]] else [])

/-! ### fetch.rs:134-230 (which statements are candidates) and eval.rs -/

/-- `&`, `<`, `>` as they appear in the raw text span of a `<name>` element -/
def xmlEsc : Str → Str
  | [] => []
  | 38 :: rest => [38, 97, 109, 112, 59] ++ xmlEsc rest
  | 60 :: rest => [38, 108, 116, 59] ++ xmlEsc rest
  | 62 :: rest => [38, 103, 116, 59] ++ xmlEsc rest
  | b :: rest => b :: xmlEsc rest

/-- the name as the agent's readers see it -/
def nameOf (c : Cfg) (n : Str) : Str := if c.unescapeNames then n else xmlEsc n

/-- verdict on the `jcmd:comment` annotation (the rpsl parser's verdict is an observed input) -/
inductive Ann where
  | none
  | malformed
  | parsed (expr : Str)
  deriving DecidableEq, Repr

/-- a `policy-statement` of the running configuration, as far as the candidate reader looks at it -/
structure RStmt where
  name : Str
  ann : Ann
  active : Bool
  reject : Bool
  deriving DecidableEq, Repr

/-- still marked as managed: active, annotated (well- or ill-formed), trivial default reject -/
def RStmt.marked (s : RStmt) : Bool := s.active && s.reject && s.ann != .none

/-- `Maybe<Candidate>::read_xml`; `none` as expression = kept but unevaluable (repaired code only) -/
def candOf (c : Cfg) (s : RStmt) : Option (Str × Option Str) :=
  if !s.active then none
  else match s.ann with
    | .none => none
    | .parsed e => if s.reject then some (nameOf c s.name, some e) else none
    | .malformed => if c.keepMalformed && s.reject then some (nameOf c s.name, none) else none

inductive Err where
  | dupPolicy | noThen | noFrom | nameMismatch | unknownFamily | dupFamily | badRange
  | stmtNotFound | termNotFound | filterNotFound | badDelete
  deriving DecidableEq, Repr

/-- `Policies<Candidate>::read_xml`: a duplicate name fails the whole read (fetch.rs:86-96) -/
def candidates (c : Cfg) (rs : List RStmt) : Except Err (List (Str × Option Str)) :=
  let l := rs.filterMap (candOf c)
  if (keys l).Nodup then .ok l else .error .dupPolicy

/-- eval.rs:39-55: an evaluation error is logged and recorded as `ranges: None`.
`oracle e` is what `RpslEvaluator::evaluate` yields for expression `e` (`none` = error). -/
def evaluateAll (oracle : Str → Option (List Range × List Range))
    (cands : List (Str × Option Str)) : List (Str × Evaluated) :=
  cands.map fun (n, e) =>
    (n, match e with
        | some e => ⟨e, oracle e⟩
        | none => ⟨[], none⟩)

end Policy
