/-
Small-step model of request/reply correlation in netconf/src/session.rs (C05, C18, C07, C14):
  session.rs:253-282   Session::rpc          → `St.send`, `St.openGate`
  session.rs:284-333   Session::recv (loop)  → `St.poll`
  session.rs:131-150   OutstandingRequest    → `Slot`
  session.rs:288       last_message_id.increment() → `nextId`; ghost `consumed`, kept by `St.step`
                       (`St.sendAct` / `St.openGateAct` / `St.closeAct` wrap `St.send` / `St.openGate` /
                       `St.close`, which are unchanged; `rollbackOnFail` is a defective variant)
Granularity: one model action = everything a task does between two `.await` suspension points.
All shared state (`requests`, `transport_rx`, `transport_tx`) is behind tokio async mutexes, so
this is the granularity at which interleavings are observable.

Assumptions about tokio (exercised by the `sched` correspondence op):
 A1  `Mutex::lock()` is FIFO and hands the lock to the first waiter on release; a waiter that is
     dropped passes the lock on.
 A2  `rpc()` needs `&mut Session`: at most one `rpc()` call is in flight; it holds the `requests`
     lock while it awaits the transport send (session.rs:271-276).
 A3  reply futures never hold the `requests` lock across a suspension point.
 A4  `RecvHandle::recv` is cancel-safe (the transports keep partial input in the handle).
Import-free.
-/
namespace Session

abbrev Fid := Nat

/-- A server message as the session layer sees it.
`id`   : result of parse phase 1 (`none` = phase 1 fails: no/unparsable message-id, broken XML);
`tag`  : identity of the payload (what a successful phase 2 resolves to);
`p2`   : phase 2 (full parse + message-id cross-check + into_result) succeeds. -/
structure Msg where
  id : Option Nat
  tag : Nat
  p2 : Bool
  deriving DecidableEq, Repr, Inhabited

inductive Slot where
  | pending
  | ready (m : Msg)
  | complete
  deriving DecidableEq, Repr, Inhabited

inductive Res where
  | ok (tag : Nat)
  | err
  deriving DecidableEq, Repr, Inhabited

inductive Pc where
  | start                 -- created / at the top of the loop, not queued anywhere
  | waitRx                -- queued for (or handed) the receive lock
  | waitReqA              -- holds rx; waits for the requests lock to look at its own slot
  | reading               -- holds rx; waits for the transport
  | waitReqB (m : Msg)    -- holds rx and message `m`; waits for the requests lock to park it
  | done (r : Res)
  | dropped
  deriving DecidableEq, Repr, Inhabited

structure Fut where
  fid : Fid
  id : Nat
  pc : Pc
  deriving DecidableEq, Repr, Inhabited

structure St where
  /-- `true`: `rpc()` holds the `requests` lock while it awaits the transport send (pinned snapshot,
      session.rs:271-276); `false`: it registers the request, releases the lock, then sends, and
      unregisters if the send fails (current code) -/
  lockAcrossSend : Bool := false
  nextId : Nat := 0
  slots : List (Nat × Slot) := []
  rxOwner : Option Fid := none
  rxQueue : List Fid := []
  rpc : Option Nat := none          -- an `rpc()` call blocked in the transport send
  inbox : List Msg := []
  closed : Bool := false
  gateOpen : Bool := true
  futs : List Fut := []
  nextFid : Fid := 0
  sent : List Nat := []             -- message-ids written to the transport, in order
  lost : List Msg := []             -- ghost: messages taken off the transport and not parked
  delivered : List Msg := []        -- ghost: every message the server ever put on the transport
  /-- ghost: every message-id drawn by an `rpc()` call (`self.last_message_id.increment()`,
      session.rs:288), in order — also the ids of calls that then failed (builder error, transport
      error before or after the bytes left); maintained by `St.step` -/
  consumed : List Nat := []
  /-- `false`: the code as it is — an id once drawn is never given back. `true`: defective variant
      in which a failing `rpc()` call sets the counter back (`St.afterFail`) -/
  rollbackOnFail : Bool := false
  deriving DecidableEq, Repr, Inhabited

def St.slot (s : St) (id : Nat) : Option Slot := (s.slots.find? (·.1 == id)).map (·.2)

def setSlot (id : Nat) (v : Slot) : List (Nat × Slot) → List (Nat × Slot)
  | [] => []
  | (k, x) :: rest => if k == id then (k, v) :: rest else (k, x) :: setSlot id v rest

def St.fut (s : St) (f : Fid) : Option Fut := s.futs.find? (·.fid == f)

def setPc (f : Fid) (pc : Pc) : List Fut → List Fut
  | [] => []
  | x :: rest => if x.fid == f then { x with pc := pc } :: rest else x :: setPc f pc rest

def St.withPc (s : St) (f : Fid) (pc : Pc) : St := { s with futs := setPc f pc s.futs }

/-- release the receive lock: hand it to the first waiter (A1) -/
def St.releaseRx (s : St) : St :=
  match s.rxQueue with
  | [] => { s with rxOwner := none }
  | g :: rest => { s with rxOwner := some g, rxQueue := rest }

def St.finish (s : St) (f : Fid) (r : Res) : St := (s.releaseRx).withPc f (.done r)

inductive Out where
  | none
  | sendOk (f : Fid) (id : Nat)
  | sendErr
  | sendBlocked (id : Nat)
  deriving DecidableEq, Repr, Inhabited

/-- does a reply future have to wait for the `requests` lock right now? -/
def St.reqBusy (s : St) : Bool := s.lockAcrossSend && s.rpc.isSome

def removeSlot (id : Nat) (l : List (Nat × Slot)) : List (Nat × Slot) := l.filter (·.1 != id)

/-- the request is on the wire: a fresh reply future (and, in the pinned variant, only now the slot) -/
def St.register (s : St) (id : Nat) (withSlot : Bool) : St × Fid :=
  ({ s with slots := if withSlot then s.slots ++ [(id, .pending)] else s.slots, sent := s.sent ++ [id],
            futs := s.futs ++ [{ fid := s.nextFid, id := id, pc := .start }], nextFid := s.nextFid + 1 },
   s.nextFid)

/-- `Session::rpc`. `buildOk = false`: the builder / capability check fails (the id is consumed). -/
def St.send (s : St) (buildOk : Bool) : St × Out :=
  if s.rpc.isSome then (s, .none)             -- impossible: `&mut self` (A2)
  else
    let id := s.nextId + 1
    let s := { s with nextId := id }
    if !buildOk then (s, .sendErr)
    else if s.closed then (s, .sendErr)       -- transport send fails; nothing stays registered
    else if s.gateOpen then
      let (s', f) := s.register id true
      (s', .sendOk f id)
    else if s.lockAcrossSend then ({ s with rpc := some id }, .sendBlocked id)
    else ({ s with rpc := some id, slots := s.slots ++ [(id, .pending)] }, .sendBlocked id)

/-- the transport accepts writes again: a blocked `rpc()` completes -/
def St.openGate (s : St) : St × Out :=
  let s := { s with gateOpen := true }
  match s.rpc with
  | none => (s, .none)
  | some id =>
    if s.closed then
      ({ s with rpc := none, slots := if s.lockAcrossSend then s.slots else removeSlot id s.slots }, .sendErr)
    else
      let (s', f) := ({ s with rpc := none }).register id s.lockAcrossSend
      (s', .sendOk f id)

def St.closeGate (s : St) : St := { s with gateOpen := false }
def St.deliver (s : St) (m : Msg) : St := { s with inbox := s.inbox ++ [m], delivered := s.delivered ++ [m] }
/-- the transport fails from now on; a blocked `rpc()` returns its error (and unregisters) -/
def St.close (s : St) : St :=
  let s := { s with closed := true }
  match s.rpc with
  | none => s
  | some id => { s with rpc := none, slots := if s.lockAcrossSend then s.slots else removeSlot id s.slots }

/-- what the own-slot check (`requests.lock().await.get_mut(&id)…take()?`) decides -/
inductive Own where
  | wait                 -- the requests lock is busy
  | fin (s : St)         -- the future finishes (state already updated)
  | read                 -- own slot still pending: go on to read from the transport

def St.checkOwn (s : St) (f : Fid) (id : Nat) : Own :=
  if s.reqBusy then .wait
  else match s.slot id with
    | none => .fin (s.finish f .err)                                   -- RequestNotFound
    | some .complete => .fin (s.finish f .err)                         -- RequestComplete
    | some (.ready m) =>
      .fin (({ s with slots := setSlot id .complete s.slots }).finish f (if m.p2 then .ok m.tag else .err))
    | some .pending => .read

/-- Run future `f`, which holds rx, until it suspends or finishes. `atRead = true`: it resumes inside
`PartialReply::recv(&mut rx_guard).await` (the own-slot check of this iteration is behind it).
`fuel` bounds the loop iterations (each consumes one inbox message). -/
def St.runHolding : (fuel : Nat) → St → Fid → Nat → (atRead : Bool) → St
  | 0, s, _, _, _ => s
  | fuel + 1, s, f, id, atRead =>
    match (if atRead then Own.read else s.checkOwn f id) with
    | .wait => s.withPc f .waitReqA
    | .fin s' => s'
    | .read =>
      match s.inbox with
      | [] => if s.closed then s.finish f .err else s.withPc f .reading
      | m :: rest =>
        let s := { s with inbox := rest }
        match m.id with
        | none => ({ s with lost := s.lost ++ [m] }).finish f .err     -- phase 1 fails
        | some mid =>
          -- `requests.lock().await` to park the message
          if s.reqBusy then s.withPc f (.waitReqB m)
          else match s.slot mid with
            | some .pending =>
              let s := { s with slots := setSlot mid (.ready m) s.slots }
              -- drop(rx_guard); loop: `rx.lock().await` again
              let s := s.releaseRx
              if s.rxOwner.isNone then
                -- nobody was waiting: re-acquire immediately and go round the loop
                St.runHolding fuel { s with rxOwner := some f } f id false
              else
                -- the lock went to the first waiter: queue behind the others
                { (s.withPc f .waitRx) with rxQueue := s.rxQueue ++ [f] }
            | _ => ({ s with lost := s.lost ++ [m] }).finish f .err     -- NotFound / Complete / Collision

/-- the second half of `runHolding` for a future resuming in `waitReqB m` -/
def St.park (s : St) (f : Fid) (id : Nat) (m : Msg) (mid : Nat) : St :=
  match s.slot mid with
  | some .pending =>
    let s := { s with slots := setSlot mid (.ready m) s.slots }
    let s := s.releaseRx
    if s.rxOwner.isNone then St.runHolding (s.inbox.length + 2) { s with rxOwner := some f } f id false
    else { (s.withPc f .waitRx) with rxQueue := s.rxQueue ++ [f] }
  | _ => ({ s with lost := s.lost ++ [m] }).finish f .err

/-- poll reply future `f` once -/
def St.poll (s : St) (f : Fid) : St :=
  match s.fut f with
  | none => s
  | some fu =>
    let fuel := s.inbox.length + 2
    match fu.pc with
    | .done _ => s
    | .dropped => s
    | .start =>
      if s.rxOwner.isNone && s.rxQueue.isEmpty then St.runHolding fuel { s with rxOwner := some f } f fu.id false
      else { (s.withPc f .waitRx) with rxQueue := s.rxQueue ++ [f] }
    | .waitRx => if s.rxOwner == some f then St.runHolding fuel s f fu.id false else s
    | .waitReqA => St.runHolding fuel s f fu.id false
    | .reading => St.runHolding fuel s f fu.id true
    | .waitReqB m =>
      if s.reqBusy then s
      else match m.id with
        | some mid => s.park f fu.id m mid
        | none => s

/-- drop reply future `f` at whatever suspension point it is -/
def St.drop (s : St) (f : Fid) : St :=
  match s.fut f with
  | none => s
  | some fu =>
    match fu.pc with
    | .done _ => s
    | .dropped => s
    | .start => s.withPc f .dropped
    | .waitRx =>
      if s.rxOwner == some f then (s.releaseRx).withPc f .dropped       -- handed the lock but never ran: pass it on
      else { (s.withPc f .dropped) with rxQueue := s.rxQueue.filter (· != f) }
    | .waitReqA => (s.releaseRx).withPc f .dropped
    | .reading => (s.releaseRx).withPc f .dropped                        -- A4: transport buffer intact
    | .waitReqB m => ({ s with lost := s.lost ++ [m] }.releaseRx).withPc f .dropped   -- the message in hand is gone

inductive Act where
  | send (buildOk : Bool)
  | gate (open_ : Bool)
  | poll (f : Fid)
  | deliver (m : Msg)
  | drop (f : Fid)
  | close
  deriving DecidableEq, Repr, Inhabited

/-- the id counter after an `rpc()` call has returned an error: untouched (the code as it is), or
— variant `rollbackOnFail` — set back by one -/
def St.afterFail (s : St) : St := if s.rollbackOnFail then { s with nextId := s.nextId - 1 } else s

/-- an `rpc()` call as an action of a history: `St.send`, the ghost record of the id it drew, and
(variant) the rollback if it failed at once -/
def St.sendAct (s : St) (buildOk : Bool) : St :=
  if s.rpc.isSome then s                      -- impossible (A2); `St.send` does nothing either
  else
    let r := s.send buildOk
    let s' := { r.1 with consumed := s.consumed ++ [s.nextId + 1] }
    match r.2 with
    | .sendErr => s'.afterFail
    | _ => s'

/-- the gate opens; a blocked `rpc()` that now fails returns its error (variant: rollback) -/
def St.openGateAct (s : St) : St :=
  match s.openGate.2 with
  | .sendErr => s.openGate.1.afterFail
  | _ => s.openGate.1

/-- the transport fails; a blocked `rpc()` returns its error (variant: rollback) -/
def St.closeAct (s : St) : St := if s.rpc.isSome then s.close.afterFail else s.close

def St.step (s : St) : Act → St
  | .send b => s.sendAct b
  | .gate true => s.openGateAct
  | .gate false => s.closeGate
  | .poll f => s.poll f
  | .deliver m => s.deliver m
  | .drop f => s.drop f
  | .close => s.closeAct

def St.run (s : St) (acts : List Act) : St := acts.foldl St.step s

def St.live (s : St) : List Fut := s.futs.filter fun f => match f.pc with | .done _ => false | .dropped => false | _ => true

/-- one fair round: poll every live future once, in creation order -/
def St.round (s : St) : St := (s.live.map (·.fid)).foldl St.poll s

def St.rounds : Nat → St → St
  | 0, s => s
  | n + 1, s => St.rounds n s.round

end Session
