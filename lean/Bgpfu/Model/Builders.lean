/-
Model of the request builders of /repo/netconf (as they are in the tree now), one function per
builder method, arm by arm:

  message/rpc/operation/mod.rs        Operation::new (32-43), Datastore::try_as_* (119-166),
                                      Filter::try_use (225-238), Url::try_new (316-333)
  message/rpc/operation/params.rs     Required::{init,set,require}
  message/rpc/operation/{get,get_config,edit_config,copy_config,delete_config,lock,kill_session,
                         commit,cancel_commit,discard_changes,validate,close_session}.rs
  message/rpc/operation/junos/{mod,open_configuration,load_configuration,commit_configuration}.rs
  session.rs                          Session::rpc (296-318)

A request is the fold of a list of builder calls over `Builder::new(ctx)`, followed by
`finish()`; `Operation::new` checks the operation-level requirement first.  The result of a
successful build is rendered (`write_xml`) to the wire-level `Rfc.Request`.

`Cfg` selects between the code as it is (`Cfg.pinned`) and the code with the proposed repairs
(`Cfg.fixed`):
  getFilterCheck        get.rs `Builder::filter` performs no capability check at all (the builder
                        has no `ctx`)                                              — defect D6
  editStartupCheck      edit_config.rs `target()` accepts `Datastore::Startup` whenever :startup
                        is advertised; RFC 6241 has no capability permitting that  — deviation E1
  deleteCandidateCheck  delete_config.rs `target()` accepts `Datastore::Candidate` whenever
                        :candidate is advertised; RFC 6241 permits only <startup/> and URLs — E2
  capUnescape           capabilities.rs `Capabilities::read_xml` parses the raw span of
                        `<capability>` without resolving `&amp;`: in `?a=b&amp;scheme=x` the
                        `scheme` argument is lost (Caps.readCapability)            — deviation E3

String-valued arguments that play no role in capability checks (filter bodies, config payloads)
are dropped; URL arguments are represented by the annotated result of the real `UriStr::new`
parse: `none` = not a URI, `some scheme` otherwise.
-/
import Bgpfu.Model.Rfc6241
namespace Builders
open Caps Rfc

/-- which `netconf::Error` variant a failed build returns -/
inductive ErrKind where
  | unsupportedOperation
  | unsupportedOperationParameter
  | unsupportedOperParameterValue
  | unsupportedSource
  | unsupportedTarget
  | unsupportedLockTarget
  | unsupportedUrlScheme
  | unsupportedFilterType
  | missingOperationParameter
  | incompatibleOperationParameters
  | urlParse
  | deleteRunningConfig
  | invalidSessionId
  | killCurrentSession
  deriving DecidableEq, Repr

/-- builds return `Result<_, Error>`; equality of results is decidable (used by `decide`) -/
instance {ε α} [DecidableEq ε] [DecidableEq α] : DecidableEq (Except ε α)
  | .ok a, .ok b => if h : a = b then isTrue (by rw [h]) else isFalse (fun h' => h (by cases h'; rfl))
  | .error a, .error b => if h : a = b then isTrue (by rw [h]) else isFalse (fun h' => h (by cases h'; rfl))
  | .ok _, .error _ => isFalse (fun h => by cases h)
  | .error _, .ok _ => isFalse (fun h => by cases h)

structure Cfg where
  getFilterCheck : Bool
  editStartupCheck : Bool
  deleteCandidateCheck : Bool
  /-- the `:url:1.0` capability's query is split after resolving character references (not a
      builder matter; passed to `Caps.parseCapabilities`) -/
  capUnescape : Bool
  deriving DecidableEq, Repr

/-- /repo as it is -/
def Cfg.pinned : Cfg :=
  { getFilterCheck := false, editStartupCheck := false, deleteCandidateCheck := false, capUnescape := false }
/-- /repo with the four proposed patches -/
def Cfg.fixed : Cfg :=
  { getFilterCheck := true, editStartupCheck := true, deleteCandidateCheck := true, capUnescape := true }

/-- session.rs `Context`: only what the builders read -/
structure Ctx where
  caps : List Capability
  sessionId : Nat
  deriving Repr

/-! ### operation/mod.rs helpers -/

/-- mod.rs:120-124 -/
def sourceReq : Datastore → Requirements
  | .running => .none
  | .candidate => .one .candidate
  | .startup => .one .startup

/-- mod.rs:136-140 -/
def targetReq : Datastore → Requirements
  | .running => .one .writableRunning
  | .candidate => .one .candidate
  | .startup => .one .startup

/-- mod.rs:152-156 -/
def lockTargetReq : Datastore → Requirements
  | .running => .none
  | .candidate => .one .candidate
  | .startup => .one .startup

/-- `Datastore::try_as_source` -/
def tryAsSource (ctx : Ctx) (d : Datastore) : Except ErrKind Datastore :=
  if (sourceReq d).check ctx.caps then .ok d else .error .unsupportedSource

/-- `Datastore::try_as_target` -/
def tryAsTarget (ctx : Ctx) (d : Datastore) : Except ErrKind Datastore :=
  if (targetReq d).check ctx.caps then .ok d else .error .unsupportedTarget

/-- `Datastore::try_as_lock_target` -/
def tryAsLockTarget (ctx : Ctx) (d : Datastore) : Except ErrKind Datastore :=
  if (lockTargetReq d).check ctx.caps then .ok d else .error .unsupportedLockTarget

/-- mod.rs:226-229 -/
def filterReq : FilterType → Requirements
  | .subtree => .none
  | .xpath => .one .xpath

/-- `Filter::try_use` -/
def filterTryUse (ctx : Ctx) (f : FilterType) : Except ErrKind FilterType :=
  if (filterReq f).check ctx.caps then .ok f else .error .unsupportedFilterType

/-- `filter.map(|filter| filter.try_use(ctx)).transpose()?` (get_config.rs:82) -/
def filterOptTryUse (ctx : Ctx) : Option FilterType → Except ErrKind (Option FilterType)
  | none => .ok none
  | some f =>
    match filterTryUse ctx f with
    | .ok f => .ok (some f)
    | .error e => .error e

/-- a URL argument: `none` if `UriStr::new` rejects the text, else its scheme -/
abbrev UrlArg := Option Str

/-- `Url::try_new` (mod.rs:316-333); a `Url` is represented by its scheme -/
def urlTryNew (ctx : Ctx) : UrlArg → Except ErrKind Str
  | none => .error .urlParse
  | some scheme =>
    if urlSchemeAdvertised ctx.caps scheme then .ok scheme else .error .unsupportedUrlScheme

/-! ### built operation values (the Rust structs) and their `write_xml` -/

/-- edit_config.rs `Source<D>` -/
inductive EditSource where
  | config
  | url (scheme : Str)
  deriving DecidableEq, Repr

/-- mod.rs `Source`; its `Url` variant is never constructed by any builder (copy_config.rs and
    validate.rs have no `url` method) -/
inductive Source where
  | datastore (d : Datastore)
  | config
  deriving DecidableEq, Repr

/-- delete_config.rs `Target` -/
inductive DeleteTarget where
  | datastore (d : Datastore)
  | url (scheme : Str)
  deriving DecidableEq, Repr

/-- load_configuration.rs sources constructible through the public API: `Rescue` and
    `Config::new(data, format, action)`.  `ConfigurationRevision`, `Rollback` and `Url` have
    private fields and no constructor. -/
inductive LoadSrc where
  | rescue
  | config (f : LoadFormat) (a : LoadAction)
  deriving DecidableEq, Repr

inductive Built where
  | get (filter : Option FilterType)
  | getConfig (source : Datastore) (filter : Option FilterType)
  | editConfig (target : Datastore) (source : EditSource) (defaultOp : DefaultOp)
      (errorOpt : ErrorOpt) (testOpt : TestOpt)
  | copyConfig (target : Datastore) (source : Source)
  | deleteConfig (target : DeleteTarget)
  | lock (target : Datastore)
  | unlock (target : Datastore)
  | killSession (sessionId : Nat)
  | commit (confirmed : Bool) (confirmTimeout : Nat) (persist : Option Str) (persistId : Option Str)
  | cancelCommit (persistId : Option Str)
  | discardChanges
  | validate (source : Source)
  | closeSession
  | closeConfiguration | lockConfiguration | unlockConfiguration
  | openConfiguration (target : OpenTarget)
  | loadConfiguration (source : LoadSrc)
  | commitConfiguration (check : Bool) (atTime : Option AtTime) (confirm : Option Nat)
      (log : Option Str) (sync : Option Bool)
  deriving DecidableEq, Repr

/-- `Timeout::default()` = 600 s -/
def defaultTimeout : Nat := 600

def renderSource : Source → Endpoint
  | .datastore d => .ds d
  | .config => .config

/-- every `write_xml`: which elements are put on the wire -/
def render : Built → Request
  | .get f => .get f
  | .getConfig s f => .getConfig (.ds s) f
  | .editConfig t src d e to =>
    -- edit_config.rs:45-60: the three options are written only when non-default
    .editConfig (.ds t)
      (if d = .merge then none else some d)
      (if e = .stopOnError then none else some e)
      (if to = .testThenSet then none else some to)
      (match src with | .config => .config | .url s => .url s)
  | .copyConfig t s => .copyConfig (.ds t) (renderSource s)
  | .deleteConfig (.datastore d) => .deleteConfig (.ds d)
  | .deleteConfig (.url s) => .deleteConfig (.url s)
  | .lock t => .lock (.ds t)
  | .unlock t => .unlock (.ds t)
  | .killSession n => .killSession n
  | .commit c t p pid =>
    -- commit.rs:33-63
    if c then .commit true (if t = defaultTimeout then none else some t) p none
    else .commit false none none pid
  | .cancelCommit pid => .cancelCommit pid
  | .discardChanges => .discardChanges
  | .validate s => .validate (renderSource s)
  | .closeSession => .closeSession
  | .closeConfiguration => .junos .closeConfiguration
  | .lockConfiguration => .junos .lockConfiguration
  | .unlockConfiguration => .junos .unlockConfiguration
  | .openConfiguration t => .junos (.openConfiguration t)
  | .loadConfiguration .rescue => .junos (.loadConfiguration .rescue)
  | .loadConfiguration (.config f a) => .junos (.loadConfiguration (.config f a))
  | .commitConfiguration ck atT cf log sy =>
    -- commit_configuration.rs:58-124; `Timeout::minutes` = secs.div_ceil(60)
    .junos (.commitConfiguration ck atT cf.isSome
      (match cf with
        | some secs => if secs = defaultTimeout then none else some ((secs + 59) / 60)
        | none => none)
      log sy)

/-! ### the builders -/

/-- `Required<T>::require` (params.rs:22-28) -/
def require {α} (v : Option α) : Except ErrKind α :=
  match v with
  | some x => .ok x
  | none => .error .missingOperationParameter

/-- applying a list of builder calls, stopping at the first `Err` (each `?`) -/
def foldCalls {σ κ} (step : σ → κ → Except ErrKind σ) : σ → List κ → Except ErrKind σ
  | s, [] => .ok s
  | s, c :: cs =>
    match step s c with
    | .ok s' => foldCalls step s' cs
    | .error e => .error e

namespace Get
/-- get.rs:38-41 -/
structure State where
  filter : Option FilterType
  deriving DecidableEq, Repr
inductive Call where
  | filter (f : Option FilterType)
  deriving DecidableEq, Repr
/-- get.rs:51-53 -/
def new : State := { filter := none }
/-- get.rs:44-47 — no `ctx`, no check (D6); `getFilterCheck` = the repaired method, identical to
    get_config.rs:81-84 -/
def filter (cfg : Cfg) (ctx : Ctx) (st : State) (f : Option FilterType) : Except ErrKind State :=
  if cfg.getFilterCheck then
    match filterOptTryUse ctx f with
    | .ok f => .ok { st with filter := f }
    | .error e => .error e
  else .ok { st with filter := f }
def step (cfg : Cfg) (ctx : Ctx) (st : State) : Call → Except ErrKind State
  | .filter f => filter cfg ctx st f
/-- get.rs:55-59 -/
def finish (st : State) : Except ErrKind Built := .ok (.get st.filter)
end Get

namespace GetConfig
/-- get_config.rs:66-70 -/
structure State where
  source : Option Datastore
  filter : Option FilterType
  deriving DecidableEq, Repr
inductive Call where
  | source (d : Datastore)
  | filter (f : Option FilterType)
  deriving DecidableEq, Repr
def new : State := { source := none, filter := none }
/-- get_config.rs:74-79 -/
def source (ctx : Ctx) (st : State) (d : Datastore) : Except ErrKind State :=
  match tryAsSource ctx d with
  | .ok d => .ok { st with source := some d }
  | .error e => .error e
/-- get_config.rs:81-84 -/
def filter (ctx : Ctx) (st : State) (f : Option FilterType) : Except ErrKind State :=
  match filterOptTryUse ctx f with
  | .ok f => .ok { st with filter := f }
  | .error e => .error e
def step (ctx : Ctx) (st : State) : Call → Except ErrKind State
  | .source d => source ctx st d
  | .filter f => filter ctx st f
/-- get_config.rs:99-105 -/
def finish (st : State) : Except ErrKind Built :=
  match require st.source with
  | .ok s => .ok (.getConfig s st.filter)
  | .error e => .error e
end GetConfig

namespace EditConfig
/-- edit_config.rs:69-76 -/
structure State where
  target : Option Datastore
  source : Option EditSource
  defaultOp : DefaultOp
  errorOpt : ErrorOpt
  testOpt : TestOpt
  deriving DecidableEq, Repr
inductive Call where
  | target (d : Datastore)
  | config
  | url (u : UrlArg)
  | defaultOperation (o : DefaultOp)
  | errorOption (e : ErrorOpt)
  | testOption (t : TestOpt)
  deriving DecidableEq, Repr
/-- edit_config.rs:128-137 -/
def new : State :=
  { target := none, source := none, defaultOp := .merge, errorOpt := .stopOnError, testOpt := .testThenSet }
/-- edit_config.rs:82-87; `editStartupCheck` = the repaired method (E1) -/
def target (cfg : Cfg) (ctx : Ctx) (st : State) (d : Datastore) : Except ErrKind State :=
  if cfg.editStartupCheck ∧ d = .startup then .error .unsupportedTarget
  else
    match tryAsTarget ctx d with
    | .ok d => .ok { st with target := some d }
    | .error e => .error e
/-- edit_config.rs:89-92 -/
def config (st : State) : Except ErrKind State := .ok { st with source := some .config }
/-- edit_config.rs:94-99 -/
def url (ctx : Ctx) (st : State) (u : UrlArg) : Except ErrKind State :=
  match urlTryNew ctx u with
  | .ok s => .ok { st with source := some (.url s) }
  | .error e => .error e
/-- edit_config.rs:101-104 -/
def defaultOperation (st : State) (o : DefaultOp) : Except ErrKind State := .ok { st with defaultOp := o }
/-- edit_config.rs:263-266 -/
def errorOptReq : ErrorOpt → Requirements
  | .stopOnError | .continueOnError => .none
  | .rollbackOnError => .one .rollbackOnError
/-- edit_config.rs:106-111 with `ErrorOption::try_use` (258-279) -/
def errorOption (ctx : Ctx) (st : State) (e : ErrorOpt) : Except ErrKind State :=
  if (errorOptReq e).check ctx.caps then .ok { st with errorOpt := e }
  else .error .unsupportedOperParameterValue
/-- edit_config.rs:217-222 -/
def testOptReq : TestOpt → Requirements
  | .testThenSet | .set => .any [.validate10, .validate11]
  | .testOnly => .one .validate11
/-- edit_config.rs:113-118 with `TestOption::try_use` (212-233) -/
def testOption (ctx : Ctx) (st : State) (t : TestOpt) : Except ErrKind State :=
  if (testOptReq t).check ctx.caps then .ok { st with testOpt := t }
  else .error .unsupportedOperParameterValue
def step (cfg : Cfg) (ctx : Ctx) (st : State) : Call → Except ErrKind State
  | .target d => target cfg ctx st d
  | .config => config st
  | .url u => url ctx st u
  | .defaultOperation o => defaultOperation st o
  | .errorOption e => errorOption ctx st e
  | .testOption t => testOption ctx st t
/-- edit_config.rs:139-147 -/
def finish (st : State) : Except ErrKind Built :=
  match require st.target with
  | .error e => .error e
  | .ok t =>
    match require st.source with
    | .error e => .error e
    | .ok s => .ok (.editConfig t s st.defaultOp st.errorOpt st.testOpt)
end EditConfig

namespace CopyConfig
/-- copy_config.rs:42-46 -/
structure State where
  target : Option Datastore
  source : Option Source
  deriving DecidableEq, Repr
inductive Call where
  | target (d : Datastore)
  | source (d : Datastore)
  | config
  deriving DecidableEq, Repr
def new : State := { target := none, source := none }
/-- copy_config.rs:49-54 -/
def target (ctx : Ctx) (st : State) (d : Datastore) : Except ErrKind State :=
  match tryAsTarget ctx d with
  | .ok d => .ok { st with target := some d }
  | .error e => .error e
/-- copy_config.rs:56-61 -/
def source (ctx : Ctx) (st : State) (d : Datastore) : Except ErrKind State :=
  match tryAsSource ctx d with
  | .ok d => .ok { st with source := some (.datastore d) }
  | .error e => .error e
/-- copy_config.rs:63-66 -/
def config (st : State) : Except ErrKind State := .ok { st with source := some .config }
def step (ctx : Ctx) (st : State) : Call → Except ErrKind State
  | .target d => target ctx st d
  | .source d => source ctx st d
  | .config => config st
/-- copy_config.rs:78-83 -/
def finish (st : State) : Except ErrKind Built :=
  match require st.target with
  | .error e => .error e
  | .ok t =>
    match require st.source with
    | .error e => .error e
    | .ok s => .ok (.copyConfig t s)
end CopyConfig

namespace DeleteConfig
/-- delete_config.rs:38-41 -/
structure State where
  target : Option DeleteTarget
  deriving DecidableEq, Repr
inductive Call where
  | target (d : Datastore)
  | url (u : UrlArg)
  deriving DecidableEq, Repr
def new : State := { target := none }
/-- delete_config.rs:44-52; `deleteCandidateCheck` = the repaired method (E2) -/
def target (cfg : Cfg) (ctx : Ctx) (st : State) (d : Datastore) : Except ErrKind State :=
  if d = .running then .error .deleteRunningConfig
  else if cfg.deleteCandidateCheck ∧ d = .candidate then .error .unsupportedTarget
  else
    match tryAsTarget ctx d with
    | .ok d => .ok { st with target := some (.datastore d) }
    | .error e => .error e
/-- delete_config.rs:54-59 -/
def url (ctx : Ctx) (st : State) (u : UrlArg) : Except ErrKind State :=
  match urlTryNew ctx u with
  | .ok s => .ok { st with target := some (.url s) }
  | .error e => .error e
def step (cfg : Cfg) (ctx : Ctx) (st : State) : Call → Except ErrKind State
  | .target d => target cfg ctx st d
  | .url u => url ctx st u
/-- delete_config.rs:70-74 -/
def finish (st : State) : Except ErrKind Built :=
  match require st.target with
  | .ok t => .ok (.deleteConfig t)
  | .error e => .error e
end DeleteConfig

namespace Lock
/-- lock.rs:64-68 (shared by `Lock` and `Unlock`) -/
structure State where
  target : Option Datastore
  deriving DecidableEq, Repr
inductive Call where
  | target (d : Datastore)
  deriving DecidableEq, Repr
def new : State := { target := none }
/-- lock.rs:78-83 -/
def target (ctx : Ctx) (st : State) (d : Datastore) : Except ErrKind State :=
  match tryAsLockTarget ctx d with
  | .ok d => .ok { st with target := some d }
  | .error e => .error e
def step (ctx : Ctx) (st : State) : Call → Except ErrKind State
  | .target d => target ctx st d
/-- lock.rs:91-95 -/
def finishLock (st : State) : Except ErrKind Built :=
  match require st.target with
  | .ok t => .ok (.lock t)
  | .error e => .error e
/-- lock.rs:103-107 -/
def finishUnlock (st : State) : Except ErrKind Built :=
  match require st.target with
  | .ok t => .ok (.unlock t)
  | .error e => .error e
end Lock

namespace KillSession
/-- kill_session.rs:44-47 -/
structure State where
  sessionId : Option Nat
  deriving DecidableEq, Repr
inductive Call where
  | sessionId (n : Nat)          -- a `u32`
  deriving DecidableEq, Repr
def new : State := { sessionId := none }
/-- kill_session.rs:50-59 with `SessionId::new` (session.rs:46-50) -/
def sessionId (ctx : Ctx) (st : State) (n : Nat) : Except ErrKind State :=
  if n = 0 then .error .invalidSessionId
  else if n = ctx.sessionId then .error .killCurrentSession
  else .ok { st with sessionId := some n }
def step (ctx : Ctx) (st : State) : Call → Except ErrKind State
  | .sessionId n => sessionId ctx st n
/-- kill_session.rs:70-74 -/
def finish (st : State) : Except ErrKind Built :=
  match require st.sessionId with
  | .ok n => .ok (.killSession n)
  | .error e => .error e
end KillSession

namespace Commit
/-- commit.rs:68-74 -/
structure State where
  confirmed : Bool
  confirmTimeout : Nat
  persist : Option Str
  persistId : Option Str
  deriving DecidableEq, Repr
inductive Call where
  | confirmed (b : Bool)
  | confirmTimeout (secs : Nat)
  | persist (t : Option Str)
  | persistId (t : Option Str)
  deriving DecidableEq, Repr
/-- commit.rs:133-141 -/
def new : State := { confirmed := false, confirmTimeout := defaultTimeout, persist := none, persistId := none }
/-- commit.rs:105-111 -/
def confirmedReq : Requirements := .any [.confirmedCommit10, .confirmedCommit11]
/-- commit.rs:113-116 -/
def persistReq : Requirements := .one .confirmedCommit11
/-- commit.rs:118-130 -/
def tryUse (ctx : Ctx) (r : Requirements) : Except ErrKind Unit :=
  if r.check ctx.caps then .ok () else .error .unsupportedOperationParameter
/-- commit.rs:77-82 -/
def confirmed (ctx : Ctx) (st : State) (b : Bool) : Except ErrKind State :=
  match tryUse ctx confirmedReq with
  | .ok () => .ok { st with confirmed := b }
  | .error e => .error e
/-- commit.rs:84-89 -/
def confirmTimeout (ctx : Ctx) (st : State) (secs : Nat) : Except ErrKind State :=
  match tryUse ctx confirmedReq with
  | .ok () => .ok { st with confirmTimeout := secs }
  | .error e => .error e
/-- commit.rs:91-96 -/
def persist (ctx : Ctx) (st : State) (t : Option Str) : Except ErrKind State :=
  match tryUse ctx persistReq with
  | .ok () => .ok { st with persist := t }
  | .error e => .error e
/-- commit.rs:98-103 -/
def persistId (ctx : Ctx) (st : State) (t : Option Str) : Except ErrKind State :=
  match tryUse ctx persistReq with
  | .ok () => .ok { st with persistId := t }
  | .error e => .error e
def step (ctx : Ctx) (st : State) : Call → Except ErrKind State
  | .confirmed b => confirmed ctx st b
  | .confirmTimeout s => confirmTimeout ctx st s
  | .persist t => persist ctx st t
  | .persistId t => persistId ctx st t
/-- commit.rs:143-162 -/
def finish (st : State) : Except ErrKind Built :=
  if st.confirmed ∧ st.persistId.isSome then .error .incompatibleOperationParameters
  else if ¬ st.confirmed ∧ st.persist.isSome then .error .incompatibleOperationParameters
  else .ok (.commit st.confirmed st.confirmTimeout st.persist st.persistId)
end Commit

namespace CancelCommit
/-- cancel_commit.rs:48-51 -/
structure State where
  persistId : Option Str
  deriving DecidableEq, Repr
inductive Call where
  | persistId (t : Option Str)
  deriving DecidableEq, Repr
def new : State := { persistId := none }
/-- cancel_commit.rs:54-67 -/
def persistId (ctx : Ctx) (st : State) (t : Option Str) : Except ErrKind State :=
  if (Requirements.one .confirmedCommit11).check ctx.caps then .ok { st with persistId := t }
  else .error .unsupportedOperationParameter
def step (ctx : Ctx) (st : State) : Call → Except ErrKind State
  | .persistId t => persistId ctx st t
/-- cancel_commit.rs:77-81 -/
def finish (st : State) : Except ErrKind Built := .ok (.cancelCommit st.persistId)
end CancelCommit

namespace Validate
/-- validate.rs:46-49 -/
structure State where
  source : Option Source
  deriving DecidableEq, Repr
inductive Call where
  | source (d : Datastore)
  | config
  deriving DecidableEq, Repr
def new : State := { source := none }
/-- validate.rs:52-57 -/
def source (ctx : Ctx) (st : State) (d : Datastore) : Except ErrKind State :=
  match tryAsSource ctx d with
  | .ok d => .ok { st with source := some (.datastore d) }
  | .error e => .error e
/-- validate.rs:59-62 -/
def config (st : State) : Except ErrKind State := .ok { st with source := some .config }
def step (ctx : Ctx) (st : State) : Call → Except ErrKind State
  | .source d => source ctx st d
  | .config => config st
/-- validate.rs:73-77 -/
def finish (st : State) : Except ErrKind Built :=
  match require st.source with
  | .ok s => .ok (.validate s)
  | .error e => .error e
end Validate

namespace OpenConfiguration
/-- junos/open_configuration.rs:86-89 -/
structure State where
  target : Option OpenTarget
  deriving DecidableEq, Repr
inductive Call where
  | priv
  | ephemeral (name : Option Str)
  deriving DecidableEq, Repr
def new : State := { target := none }
/-- open_configuration.rs:97-99 -/
def priv (st : State) : Except ErrKind State := .ok { st with target := some .priv }
/-- open_configuration.rs:101-109 -/
def ephemeral (st : State) (name : Option Str) : Except ErrKind State :=
  match name with
  | some n => .ok { st with target := some (.ephemeralInstance n) }
  | none => .ok { st with target := some .ephemeral }
def step (st : State) : Call → Except ErrKind State
  | .priv => priv st
  | .ephemeral n => ephemeral st n
/-- open_configuration.rs:120-124 -/
def finish (st : State) : Except ErrKind Built :=
  match require st.target with
  | .ok t => .ok (.openConfiguration t)
  | .error e => .error e
end OpenConfiguration

namespace LoadConfiguration
/-- junos/load_configuration.rs:336-339 -/
structure State where
  source : Option LoadSrc
  deriving DecidableEq, Repr
inductive Call where
  | source (s : LoadSrc)
  deriving DecidableEq, Repr
def new : State := { source := none }
/-- load_configuration.rs:342-345 -/
def source (st : State) (s : LoadSrc) : Except ErrKind State := .ok { st with source := some s }
def step (st : State) : Call → Except ErrKind State
  | .source s => source st s
/-- load_configuration.rs:359-363 -/
def finish (st : State) : Except ErrKind Built :=
  match require st.source with
  | .ok s => .ok (.loadConfiguration s)
  | .error e => .error e
end LoadConfiguration

namespace CommitConfiguration
/-- junos/commit_configuration.rs:162-169 -/
structure State where
  check : Bool
  atTime : Option AtTime
  confirm : Option Nat
  log : Option Str
  synchronize : Option Bool
  deriving DecidableEq, Repr
inductive Call where
  | check (b : Bool)
  | now
  | atReboot
  | todayAt
  | atDateTime
  | confirmed (b : Bool)
  | confirmedWithTimeout (secs : Nat)
  | withLogMessage (m : Str)
  | synchronize (force : Bool)
  deriving DecidableEq, Repr
def new : State := { check := false, atTime := none, confirm := none, log := none, synchronize := none }
/-- commit_configuration.rs:172-220, none of them can fail -/
def step (st : State) : Call → Except ErrKind State
  | .check b => .ok { st with check := b }
  | .now => .ok { st with atTime := none }
  | .atReboot => .ok { st with atTime := some .reboot }
  | .todayAt => .ok { st with atTime := some .time }
  | .atDateTime => .ok { st with atTime := some .dateTime }
  | .confirmed b => .ok { st with confirm := if b then some defaultTimeout else none }
  | .confirmedWithTimeout s => .ok { st with confirm := some s }
  | .withLogMessage m => .ok { st with log := some m }
  | .synchronize f => .ok { st with synchronize := some f }
/-- commit_configuration.rs:234-242 -/
def finish (st : State) : Except ErrKind Built :=
  .ok (.commitConfiguration st.check st.atTime st.confirm st.log st.synchronize)
end CommitConfiguration

/-! ### `Operation::new` -/

/-- an operation type together with the calls made on its builder inside the `build_fn` closure -/
inductive Build where
  | get (cs : List Get.Call)
  | getConfig (cs : List GetConfig.Call)
  | editConfig (cs : List EditConfig.Call)
  | copyConfig (cs : List CopyConfig.Call)
  | deleteConfig (cs : List DeleteConfig.Call)
  | lock (cs : List Lock.Call)
  | unlock (cs : List Lock.Call)
  | killSession (cs : List KillSession.Call)
  | commit (cs : List Commit.Call)
  | cancelCommit (cs : List CancelCommit.Call)
  | discardChanges
  | validate (cs : List Validate.Call)
  | closeSession
  | closeConfiguration | lockConfiguration | unlockConfiguration
  | openConfiguration (cs : List OpenConfiguration.Call)
  | loadConfiguration (cs : List LoadConfiguration.Call)
  | commitConfiguration (cs : List CommitConfiguration.Call)
  deriving DecidableEq, Repr

/-- every `const REQUIRED_CAPABILITIES` -/
def requiredCapabilities : Build → Requirements
  | .commit _ => .one .candidate                                        -- commit.rs:24
  | .cancelCommit _ => .one .confirmedCommit11                          -- cancel_commit.rs:21
  | .discardChanges => .one .candidate                                  -- discard_changes.rs:22
  | .validate _ => .any [.validate10, .validate11]                      -- validate.rs:21-22
  | .closeConfiguration | .lockConfiguration | .unlockConfiguration     -- junos/mod.rs:158-161
  | .openConfiguration _ | .loadConfiguration _ | .commitConfiguration _ => .one .junos
  | _ => .none

/-- `build_fn(builder)`: the calls (each followed by `?`), then `.finish()` -/
def thenFinish {σ} (r : Except ErrKind σ) (finish : σ → Except ErrKind Built) : Except ErrKind Built :=
  match r with
  | .ok st => finish st
  | .error e => .error e

/-- `Self::Builder::new(ctx).build(build_fn)` where `build_fn` = the calls, then `finish()` -/
def runBuilder (cfg : Cfg) (ctx : Ctx) : Build → Except ErrKind Built
  | .get cs =>
    thenFinish (foldCalls (Get.step cfg ctx) Get.new cs) Get.finish
  | .getConfig cs =>
    thenFinish (foldCalls (GetConfig.step ctx) GetConfig.new cs) GetConfig.finish
  | .editConfig cs =>
    thenFinish (foldCalls (EditConfig.step cfg ctx) EditConfig.new cs) EditConfig.finish
  | .copyConfig cs =>
    thenFinish (foldCalls (CopyConfig.step ctx) CopyConfig.new cs) CopyConfig.finish
  | .deleteConfig cs =>
    thenFinish (foldCalls (DeleteConfig.step cfg ctx) DeleteConfig.new cs) DeleteConfig.finish
  | .lock cs =>
    thenFinish (foldCalls (Lock.step ctx) Lock.new cs) Lock.finishLock
  | .unlock cs =>
    thenFinish (foldCalls (Lock.step ctx) Lock.new cs) Lock.finishUnlock
  | .killSession cs =>
    thenFinish (foldCalls (KillSession.step ctx) KillSession.new cs) KillSession.finish
  | .commit cs =>
    thenFinish (foldCalls (Commit.step ctx) Commit.new cs) Commit.finish
  | .cancelCommit cs =>
    thenFinish (foldCalls (CancelCommit.step ctx) CancelCommit.new cs) CancelCommit.finish
  | .discardChanges => .ok .discardChanges
  | .validate cs =>
    thenFinish (foldCalls (Validate.step ctx) Validate.new cs) Validate.finish
  | .closeSession => .ok .closeSession
  | .closeConfiguration => .ok .closeConfiguration
  | .lockConfiguration => .ok .lockConfiguration
  | .unlockConfiguration => .ok .unlockConfiguration
  | .openConfiguration cs =>
    thenFinish (foldCalls OpenConfiguration.step OpenConfiguration.new cs) OpenConfiguration.finish
  | .loadConfiguration cs =>
    thenFinish (foldCalls LoadConfiguration.step LoadConfiguration.new cs) LoadConfiguration.finish
  | .commitConfiguration cs =>
    thenFinish (foldCalls CommitConfiguration.step CommitConfiguration.new cs) CommitConfiguration.finish

/-- `Operation::new` (mod.rs:32-43): operation-level requirement first, then the builder -/
def operationNew (cfg : Cfg) (ctx : Ctx) (b : Build) : Except ErrKind Built :=
  if (requiredCapabilities b).check ctx.caps then runBuilder cfg ctx b
  else .error .unsupportedOperation

/-- what `session.rpc::<O, _>(build_fn)` hands to the transport, or the local error -/
def build (cfg : Cfg) (ctx : Ctx) (b : Build) : Except ErrKind Request :=
  match operationNew cfg ctx b with
  | .ok o => .ok (render o)
  | .error e => .error e

/-! ### `Session::rpc` (session.rs:296-318) -/

structure Session where
  ctx : Ctx
  lastMessageId : Nat
  /-- requests handed to `transport_tx.send`, with their message-id -/
  wire : List (Nat × Request)
  deriving Repr

/-- the message-id is consumed first; a failed build returns before anything is sent -/
def Session.rpc (cfg : Cfg) (s : Session) (b : Build) : Session × Except ErrKind Unit :=
  let id := s.lastMessageId + 1
  match build cfg s.ctx b with
  | .error e => ({ s with lastMessageId := id }, .error e)
  | .ok r => ({ s with lastMessageId := id, wire := s.wire ++ [(id, r)] }, .ok ())

end Builders
