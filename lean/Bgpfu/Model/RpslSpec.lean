import Bgpfu.Model.Irr
/-
Reference semantics of RPSL filter expressions over an IRR database, written from RFC 2622
(sections 2, 5.1–5.4) and RFC 4012 (`mp-filter`, `mp-members`) and *not* from the code: a
declarative denotation `denote db e : Pfx → Prop` with set reachability as an inductive relation.
Nothing here is executable and nothing here mentions queries, responses or connections.
-/
namespace RpslSpec
open Rpsl Irr

/-- `Reach g s n`: set `n` is `s` or a (transitive) member of `s` (RFC 2622 §5.1/5.2: "members …
the set's members are recursively expanded") -/
inductive Reach {α : Type} (g : Graph α) (s : String) : String → Prop where
  | refl : Reach g s s
  | step {n m : String} {ms : List (Mem α)} :
      Reach g s n → g.lookup n = some ms → Mem.set m ∈ ms → Reach g s m

/-- `x` is a leaf member of a set reachable from `s` -/
def LeafOf {α : Type} (g : Graph α) (s : String) (x : α) : Prop :=
  ∃ n ms, Reach g s n ∧ g.lookup n = some ms ∧ Mem.leaf x ∈ ms

/-- `q` is the prefix of a `route` / `route6` object with origin `a` -/
def Routes (db : Db) (a : Nat) (q : Pfx) : Prop :=
  ∃ e ∈ db.routes, e.1 = a ∧ q ∈ e.2

/-- RFC 2622 §2, range operators on an address prefix of length `pl`: which lengths `ql` of its
more-specifics are selected (`^-` exclusive, `^+` inclusive, `^n`, `^n-m`) -/
def Admits (op : RangeOp) (pl ql : Nat) : Prop :=
  match op with
  | .none => ql = pl
  | .lessIncl => True
  | .lessExcl => pl < ql
  | .exact n => ql = n
  | .range n m => n ≤ ql ∧ ql ≤ m

/-- a range operator applied to a set "distributes over the members of the set" -/
def opSet (op : RangeOp) (s : Pfx → Prop) : Pfx → Prop := fun q =>
  ∃ p, s p ∧ p.covers q = true ∧ Admits op p.len q.len

def leafSet (db : Db) : RsLeaf → Pfx → Prop
  | .pfx p op => opSet op (· = p)
  | .asn a => Routes db a
  | .junk _ => fun _ => False     -- a word that is no prefix denotes nothing

def denoteNamed (db : Db) : Named → Pfx → Prop
  | .rsAny => fun _ => True
  | .asAny => fun _ => True
  | .peerAs => fun _ => False                    -- needs a peering context; not a closed expression
  | .autNum a => Routes db a
  | .asSet n => fun q => ∃ a, LeafOf db.asSets n a ∧ Routes db a q
  | .routeSet n => fun q => ∃ l, LeafOf db.routeSets n l ∧ leafSet db l q

def denotePse (db : Db) : PrefixSetExpr → Pfx → Prop
  | .lit ms => fun q => ∃ m ∈ ms, opSet m.2 (· = m.1) q
  | .named n => denoteNamed db n

/-- the filter stored in filter-set `n`: the `mp-filter:` of the first object that has one -/
def FilterOf (db : Db) (n : String) (e : Expr) : Prop :=
  ∃ objs, db.filterSets.lookup n = some objs ∧ (objs.filterMap (·.mpFilter)).head? = some e

def denoteWith (db : Db) (self : Expr → Pfx → Prop) : Expr → Pfx → Prop
  | .any => fun _ => True
  | .prefixSet s op => opSet op (denotePse db s)
  | .asPath => fun _ => False        -- not a prefix filter
  | .attrMatch => fun _ => False
  | .filterSet n => fun q => ∃ e, FilterOf db n e ∧ self e q
  | .not e => fun q => ¬ denoteWith db self e q
  | .and a b => fun q => denoteWith db self a q ∧ denoteWith db self b q
  | .or a b => fun q => denoteWith db self a q ∨ denoteWith db self b q

/-- `denote db d e`: the set of prefixes `e` stands for, following filter-set names to depth `d` -/
def denote (db : Db) : Nat → Expr → Pfx → Prop
  | 0 => denoteWith db fun _ _ => False
  | d + 1 => denoteWith db (denote db d)

/-! ### well-formedness side conditions -/

/-- the upper bound of a `^n-m` operator does not exceed the maximum prefix length `M` -/
def OpWithin (M : Nat) : RangeOp → Prop
  | .range _ m => m ≤ M
  | _ => True

def PseOpsOk : PrefixSetExpr → Prop
  | .lit ms => ∀ m ∈ ms, OpWithin m.1.fam.maxLen m.2
  | .named _ => True

/-- range operators are within the bounds of the address family they are applied to (an operator
applied to a possibly mixed-family set must be valid for IPv4) -/
def OpsOk : Expr → Prop
  | .prefixSet s op => PseOpsOk s ∧ OpWithin 32 op
  | .not e => OpsOk e
  | .and a b => OpsOk a ∧ OpsOk b
  | .or a b => OpsOk a ∧ OpsOk b
  | _ => True

def DbOpsOk (db : Db) : Prop :=
  (∀ e ∈ db.routeSets, ∀ m ∈ e.2, ∀ p op, m = .leaf (.pfx p op) → OpWithin p.fam.maxLen op) ∧
  (∀ e ∈ db.filterSets, ∀ o ∈ e.2, ∀ f, o.mpFilter = some f → OpsOk f)

/-- no route-set member carries a range operator -/
def RsPlain (db : Db) : Prop :=
  ∀ e ∈ db.routeSets, ∀ m ∈ e.2, ∀ p op, m = .leaf (.pfx p op) → op = .none

end RpslSpec
