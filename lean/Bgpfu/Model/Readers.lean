import Bgpfu.Model.Xml
/-
Event-level models of the NETCONF message readers of /repo/netconf/src/message:
  mod.rs:60-90           ServerMsg::from_xml                       → `fromXml`
  rpc/mod.rs:98-132      PartialReply::read_xml (parse phase 1)    → `readPartial`
  rpc/mod.rs:147-178     Reply<O>::read_xml, TryFrom<PartialReply> → `readReply`, `phase2`
  rpc/mod.rs:191-283     EmptyReply / DataReply<Opaque>            → `emptyLoop`, `dataLoop`
  rpc/error.rs:66-174    rpc::Error::read_xml                      → `errorLoop`
  rpc/error.rs:388-441   rpc::error::Info::read_xml                → `infoLoop`
  operation/junos/mod.rs:95-133            BareReply               → `bareLoop`
  operation/junos/load_configuration.rs:400-476  load Reply        → `loadOuter`, `loadInner`
One Lean function per Rust `loop { match reader.read_resolved_event()? { … } }`, one `match` arm
per Rust arm, same order, same guards. Every loop takes `fuel`, decremented once per iteration;
`Err.fuel` is never returned when `fuel > evs.length` (theorem `*_no_fuel`, C14).
-/
namespace Xml

/-! ### rpc-error -/

inductive ErrType where | transport | rpc | protocol | application
  deriving DecidableEq, Repr, Inhabited
inductive Severity where | warning | error
  deriving DecidableEq, Repr, Inhabited

def parseErrType (s : String) : Option ErrType :=
  if s == "transport" then some .transport else if s == "rpc" then some .rpc
  else if s == "protocol" then some .protocol else if s == "application" then some .application else none

def errTags : List String :=
  ["in-use", "invalid-value", "too-big", "missing-attribute", "bad-attribute", "unknown-attribute",
   "missing-element", "bad-element", "unknown-element", "unknown-namespace", "access-denied",
   "lock-denied", "resource-denied", "rollback-failed", "data-exists", "data-missing",
   "operation-not-supported", "operation-failed", "malformed-message", "partial-operation"]

/-- error tags are kept as the (validated) token -/
def parseErrTag (s : String) : Option String := if errTags.contains s then some s else none

def parseSeverity (s : String) : Option Severity :=
  if s == "error" then some .error else if s == "warning" then some .warning else none

inductive InfoElem where
  | badAttribute (s : String) | badElement (s : String) | badNamespace (s : String)
  | sessionId (n : Option Nat) | okElement (s : String) | errElement (s : String) | noopElement (s : String)
  deriving DecidableEq, Repr, Inhabited

structure RpcError where
  ty : ErrType
  tag : String
  severity : Severity
  appTag : Option String
  path : Option String
  message : Option String
  info : List InfoElem
  deriving DecidableEq, Repr, Inhabited

/-- `Info::read_xml` -/
def infoLoop : (fuel : Nat) → (endRaw : String) → (acc : List InfoElem) → List Ev → Except Err (List InfoElem × List Ev)
  | 0, _, _, _ => .error .fuel
  | _ + 1, _, _, [] => .error .xml
  | fuel + 1, endRaw, acc, ev :: rest =>
    match ev with
    | .error => .error .xml
    | .start t =>
      if t.ns == .bound BASE then
        if t.lname == "bad-attribute" then
          (match readText t rest with | .ok (s, r) => infoLoop fuel endRaw (acc ++ [.badAttribute s]) r | .error e => .error e)
        else if t.lname == "bad-element" then
          (match readText t rest with | .ok (s, r) => infoLoop fuel endRaw (acc ++ [.badElement s]) r | .error e => .error e)
        else if t.lname == "bad-namespace" then
          (match readText t rest with | .ok (s, r) => infoLoop fuel endRaw (acc ++ [.badNamespace s]) r | .error e => .error e)
        else if t.lname == "session-id" then
          (match readText t rest with
           | .ok (s, r) => (match parseU32 (trim s) with
              | some n => infoLoop fuel endRaw (acc ++ [.sessionId (if n == 0 then none else some n)]) r
              | none => .error .parse)
           | .error e => .error e)
        else if t.lname == "ok-element" then
          (match readText t rest with | .ok (s, r) => infoLoop fuel endRaw (acc ++ [.okElement s]) r | .error e => .error e)
        else if t.lname == "err-element" then
          (match readText t rest with | .ok (s, r) => infoLoop fuel endRaw (acc ++ [.errElement s]) r | .error e => .error e)
        else if t.lname == "noop-element" then
          (match readText t rest with | .ok (s, r) => infoLoop fuel endRaw (acc ++ [.noopElement s]) r | .error e => .error e)
        else .error .parse   -- UnknownErrorInfo
      else .error .unexpected
    | .comment => infoLoop fuel endRaw acc rest
    | .end raw => if raw == endRaw then .ok (acc, rest) else .error .unexpected
    | _ => .error .unexpected

structure ErrAcc where
  ty : Option ErrType := none
  tag : Option String := none
  severity : Option Severity := none
  appTag : Option String := none
  path : Option String := none
  message : Option String := none
  info : Option (List InfoElem) := none
  deriving DecidableEq, Repr, Inhabited

def ErrAcc.finish (a : ErrAcc) : Except Err RpcError :=
  match a.ty, a.tag, a.severity with
  | some ty, some tag, some sev =>
    .ok { ty, tag, severity := sev, appTag := a.appTag, path := a.path, message := a.message, info := a.info.getD [] }
  | _, _, _ => .error .missing

/-- `rpc::Error::read_xml` -/
def errorLoop : (fuel : Nat) → (endRaw : String) → (acc : ErrAcc) → List Ev → Except Err (RpcError × List Ev)
  | 0, _, _, _ => .error .fuel
  | _ + 1, _, _, [] => .error .xml
  | fuel + 1, endRaw, acc, ev :: rest =>
    match ev with
    | .error => .error .xml
    | .start t =>
      if t.is BASE "error-type" && acc.ty.isNone then
        (match readText t rest with
         | .ok (s, r) => (match parseErrType (trim s) with
            | some v => errorLoop fuel endRaw { acc with ty := some v } r
            | none => .error .parse)
         | .error e => .error e)
      else if t.is BASE "error-tag" && acc.tag.isNone then
        (match readText t rest with
         | .ok (s, r) => (match parseErrTag (trim s) with
            | some v => errorLoop fuel endRaw { acc with tag := some v } r
            | none => .error .parse)
         | .error e => .error e)
      else if t.is BASE "error-severity" && acc.severity.isNone then
        (match readText t rest with
         | .ok (s, r) => (match parseSeverity (trim s) with
            | some v => errorLoop fuel endRaw { acc with severity := some v } r
            | none => .error .parse)
         | .error e => .error e)
      else if t.is BASE "error-app-tag" && acc.appTag.isNone then
        (match readText t rest with
         | .ok (s, r) => errorLoop fuel endRaw { acc with appTag := some (trim s) } r
         | .error e => .error e)
      else if t.is BASE "error-path" && acc.path.isNone then
        (match readText t rest with
         | .ok (s, r) => errorLoop fuel endRaw { acc with path := some (trim s) } r
         | .error e => .error e)
      else if t.is BASE "error-message" && acc.message.isNone then
        (match readText t rest with
         | .ok (s, r) => errorLoop fuel endRaw { acc with message := some (trim s) } r
         | .error e => .error e)
      else if t.is BASE "error-info" && acc.info.isNone then
        (match infoLoop fuel t.raw [] rest with
         | .ok (i, r) => errorLoop fuel endRaw { acc with info := some i } r
         | .error e => .error e)
      else .error .unexpected
    | .comment => errorLoop fuel endRaw acc rest
    | .end raw => if raw == endRaw then (match acc.finish with | .ok e => .ok (e, rest) | .error e => .error e) else .error .unexpected
    | _ => .error .unexpected

def readRpcError (fuel : Nat) (t : Tag) (rest : List Ev) : Except Err (RpcError × List Ev) :=
  errorLoop fuel t.raw {} rest

/-! ### reply bodies -/

/-- the four reply kinds of `Operation::Reply` -/
inductive ReplyKind where
  | empty   -- EmptyReply       (commit, lock, edit-config, close-session, …)
  | data    -- DataReply<Opaque> (get, get-config)
  | bare    -- BareReply        (Junos open/close/commit-configuration …)
  | load    -- load-configuration Reply
  deriving DecidableEq, Repr, Inhabited

/-- result of a reply reader before `into_result` -/
inductive Body where
  | ok
  | data (s : String)
  | errs (es : List RpcError)
  deriving DecidableEq, Repr, Inhabited

/-- configuration of the two repaired guards (see KNOWN_FINDINGS.txt) -/
structure RCfg where
  /-- load-configuration-results: `<ok/>` is only accepted while no rpc-error of severity `error`
      has been seen (pinned: accepted whenever `this.is_none()`) -/
  loadOkGuard : Bool
  /-- from_xml / PartialReply::read_xml skip an XML declaration (pinned: rejected) -/
  declArm : Bool
  /-- token-valued leaves (capability, session-id, load-error-count) are trimmed before parsing
      (pinned: parsed raw) -/
  trimTokens : Bool
  /-- `Capabilities::read_xml` has a Comment arm (pinned: none) -/
  capsComment : Bool
  /-- `ServerMsg::from_xml` accepts the message element only while none has been read (pinned: a
      second root element overwrites the first) -/
  oneRoot : Bool
  deriving DecidableEq, Repr, Inhabited

def RCfg.pinned : RCfg := { loadOkGuard := false, declArm := false, trimTokens := false, capsComment := false, oneRoot := false }
def RCfg.fixed : RCfg := { loadOkGuard := true, declArm := true, trimTokens := true, capsComment := true, oneRoot := true }

/-- the text a token-valued leaf is parsed from -/
def RCfg.tok (c : RCfg) (s : String) : String := if c.trimTokens then trim s else s

/-- `EmptyReply::read_xml` -/
def emptyLoop : (fuel : Nat) → (endRaw : String) → (this : Bool) → (errors : List RpcError) → List Ev → Except Err (Body × List Ev)
  | 0, _, _, _, _ => .error .fuel
  | _ + 1, _, _, _, [] => .error .xml
  | fuel + 1, endRaw, this, errors, ev :: rest =>
    match ev with
    | .error => .error .xml
    | .empty t =>
      if t.is BASE "ok" && !this && errors.isEmpty then emptyLoop fuel endRaw true errors rest
      else .error .unexpected
    | .start t =>
      if t.is BASE "rpc-error" && !this then
        (match readRpcError fuel t rest with
         | .ok (e, r) => emptyLoop fuel endRaw this (errors ++ [e]) r
         | .error e => .error e)
      else .error .unexpected
    | .comment => emptyLoop fuel endRaw this errors rest
    | .end raw =>
      if raw == endRaw then
        (if this then .ok (.ok, rest) else if !errors.isEmpty then .ok (.errs errors, rest) else .error .missing)
      else .error .unexpected
    | _ => .error .unexpected

/-- `DataReply<Opaque>::read_xml` (`Opaque::read_xml` = `read_text` of the `<data>` element) -/
def dataLoop : (fuel : Nat) → (endRaw : String) → (this : Option String) → (errors : List RpcError) → List Ev → Except Err (Body × List Ev)
  | 0, _, _, _, _ => .error .fuel
  | _ + 1, _, _, _, [] => .error .xml
  | fuel + 1, endRaw, this, errors, ev :: rest =>
    match ev with
    | .error => .error .xml
    | .start t =>
      if t.is BASE "data" && this.isNone && errors.isEmpty then
        (match readText t rest with
         | .ok (s, r) => dataLoop fuel endRaw (some s) errors r
         | .error e => .error e)
      else if t.is BASE "rpc-error" && this.isNone then
        (match readRpcError fuel t rest with
         | .ok (e, r) => dataLoop fuel endRaw this (errors ++ [e]) r
         | .error e => .error e)
      else .error .unexpected
    | .comment => dataLoop fuel endRaw this errors rest
    | .end raw =>
      if raw == endRaw then
        (match this with
         | some s => .ok (.data s, rest)
         | none => if !errors.isEmpty then .ok (.errs errors, rest) else .error .missing)
      else .error .unexpected
    | _ => .error .unexpected

/-- `BareReply::read_xml` -/
def bareLoop : (fuel : Nat) → (endRaw : String) → (errors : List RpcError) → List Ev → Except Err (Body × List Ev)
  | 0, _, _, _ => .error .fuel
  | _ + 1, _, _, [] => .error .xml
  | fuel + 1, endRaw, errors, ev :: rest =>
    match ev with
    | .error => .error .xml
    | .start t =>
      if t.is BASE "rpc-error" then
        (match readRpcError fuel t rest with
         | .ok (e, r) => bareLoop fuel endRaw (errors ++ [e]) r
         | .error e => .error e)
      else .error .unexpected
    | .comment => bareLoop fuel endRaw errors rest
    | .end raw =>
      if raw == endRaw then (if errors.isEmpty then .ok (.ok, rest) else .ok (.errs errors, rest))
      else .error .unexpected
    | _ => .error .unexpected

structure LoadSt where
  this : Bool := false
  errors : List RpcError := []
  count : Option Nat := none
  deriving DecidableEq, Repr, Inhabited

def hasErrorSeverity (es : List RpcError) : Bool := es.any (·.severity == .error)

/-- inner loop over the children of `<load-configuration-results>` -/
def loadInner (c : RCfg) : (fuel : Nat) → (endRaw : String) → LoadSt → List Ev → Except Err (LoadSt × List Ev)
  | 0, _, _, _ => .error .fuel
  | _ + 1, _, _, [] => .error .xml
  | fuel + 1, endRaw, st, ev :: rest =>
    match ev with
    | .error => .error .xml
    | .empty t =>
      if t.is BASE "ok" && !st.this && (!c.loadOkGuard || !hasErrorSeverity st.errors) then
        loadInner c fuel endRaw { st with this := true } rest
      else .error .unexpected
    | .start t =>
      if t.is BASE "rpc-error" && !st.this then
        (match readRpcError fuel t rest with
         | .ok (e, r) => loadInner c fuel endRaw { st with errors := st.errors ++ [e] } r
         | .error e => .error e)
      else if t.is BASE "load-error-count" && !st.this then
        (match readText t rest with
         | .ok (s, r) => (match parseUsize (c.tok s) with
            | some n => loadInner c fuel endRaw { st with count := some n } r
            | none => .error .other)
         | .error e => .error e)
      else .error .unexpected
    | .comment => loadInner c fuel endRaw st rest
    | .end raw => if raw == endRaw then .ok (st, rest) else .error .unexpected
    | _ => .error .unexpected

/-- outer loop of the load-configuration `Reply::read_xml` -/
def loadOuter (c : RCfg) : (fuel : Nat) → (endRaw : String) → LoadSt → List Ev → Except Err (Body × List Ev)
  | 0, _, _, _ => .error .fuel
  | _ + 1, _, _, [] => .error .xml
  | fuel + 1, endRaw, st, ev :: rest =>
    match ev with
    | .error => .error .xml
    | .start t =>
      if t.is BASE "load-configuration-results" && !st.this then
        (match loadInner c fuel t.raw st rest with
         | .ok (st', r) => loadOuter c fuel endRaw st' r
         | .error e => .error e)
      else .error .unexpected
    | .comment => loadOuter c fuel endRaw st rest
    | .end raw =>
      if raw == endRaw then
        (if st.this then .ok (.ok, rest)
         else match st.count with
           | some n => if st.errors.length == n then .ok (.errs st.errors, rest) else .error .missing
           | none => .error .missing)
      else .error .unexpected
    | _ => .error .unexpected

def readBody (c : RCfg) (k : ReplyKind) (fuel : Nat) (t : Tag) (rest : List Ev) : Except Err (Body × List Ev) :=
  match k with
  | .empty => emptyLoop fuel t.raw false [] rest
  | .data => dataLoop fuel t.raw none [] rest
  | .bare => bareLoop fuel t.raw [] rest
  | .load => loadOuter c fuel t.raw {} rest

/-! ### message-id, Reply<O>, from_xml -/

/-- `MessageId::try_from(attr)` -/
def parseMessageId (a : Attr) : Except Err Nat :=
  match a.value with
  | none => .error .xml
  | some v => match parseUsize v with
    | some n => .ok n
    | none => .error .parse

/-- `Reply<O>::read_xml` -/
def readReplyElem (c : RCfg) (k : ReplyKind) (fuel : Nat) (t : Tag) (rest : List Ev) : Except Err ((Nat × Body) × List Ev) :=
  match getAttr "message-id" t.attrs with
  | .error e => .error e
  | .ok none => .error .missing
  | .ok (some a) =>
    match parseMessageId a with
    | .error e => .error e
    | .ok id =>
      match readBody c k fuel t rest with
      | .error e => .error e
      | .ok (b, r) => .ok ((id, b), r)

/-- `ServerMsg::from_xml` specialised to `Reply<O>` (`this` is overwritten by a later root element) -/
def fromXmlReply (c : RCfg) (k : ReplyKind) : (fuel : Nat) → (this : Option (Nat × Body)) → List Ev → Except Err (Nat × Body)
  | 0, _, _ => .error .fuel
  | _ + 1, _, [] => .error .xml
  | fuel + 1, this, ev :: rest =>
    match ev with
    | .error => .error .xml
    | .start t =>
      if t.is BASE "rpc-reply" && !(c.oneRoot && this.isSome) then
        (match readReplyElem c k fuel t rest with
         | .ok (v, r) => fromXmlReply c k fuel (some v) r
         | .error e => .error e)
      else .error .unexpected
    | .comment => fromXmlReply c k fuel this rest
    | .decl => if c.declArm then fromXmlReply c k fuel this rest else .error .unexpected
    | .eof => (match this with | some v => .ok v | none => .error .missing)
    | .text s => if s == MARKER then (match this with | some v => .ok v | none => .error .missing) else .error .unexpected
    | _ => .error .unexpected

/-- `read_to_end` whose failure is ignored (`_ = reader.read_to_end(..)`): on failure the reader
stands just after the event that failed. -/
def skipToEndLenient (name : String) : List Ev → Nat → List Ev
  | [], _ => []
  | .error :: rest, _ => rest
  | .eof :: rest, _ => .eof :: rest      -- EOF is sticky: the next read returns Eof again
  | .start t :: rest, depth => if t.raw == name then skipToEndLenient name rest (depth + 1) else skipToEndLenient name rest depth
  | .end raw :: rest, depth =>
    if raw == name then (match depth with
      | 0 => rest
      | d + 1 => skipToEndLenient name rest d)
    else skipToEndLenient name rest depth
  | _ :: rest, depth => skipToEndLenient name rest depth

theorem skipToEndLenient_length (name : String) (evs : List Ev) (d : Nat) :
    (skipToEndLenient name evs d).length ≤ evs.length := by
  induction evs generalizing d with
  | nil => simp [skipToEndLenient]
  | cons ev rest ih =>
    cases ev with
    | start t => simp only [skipToEndLenient]; split <;> exact Nat.le_succ_of_le (ih _)
    | empty t => exact Nat.le_succ_of_le (ih _)
    | «end» raw =>
      simp only [skipToEndLenient]
      split
      · cases d with
        | zero => simp
        | succ d => exact Nat.le_succ_of_le (ih _)
      · exact Nat.le_succ_of_le (ih _)
    | eof => simp [skipToEndLenient]
    | error => simp [skipToEndLenient]
    | text s => exact Nat.le_succ_of_le (ih _)
    | cdata => exact Nat.le_succ_of_le (ih _)
    | comment => exact Nat.le_succ_of_le (ih _)
    | decl => exact Nat.le_succ_of_le (ih _)
    | pi => exact Nat.le_succ_of_le (ih _)
    | doctype => exact Nat.le_succ_of_le (ih _)

/-- `PartialReply::read_xml` (parse phase 1): only the message-id of the (last) `rpc-reply` -/
def readPartial (c : RCfg) : (fuel : Nat) → (mid : Option Nat) → List Ev → Except Err Nat
  | 0, _, _ => .error .fuel
  | _ + 1, _, [] => .error .xml
  | fuel + 1, mid, ev :: rest =>
    match ev with
    | .error => .error .xml
    | .start t =>
      if t.is BASE "rpc-reply" then
        (match getAttr "message-id" t.attrs with
         | .error e => .error e
         | .ok none => readPartial c fuel none (skipToEndLenient t.raw rest 0)
         | .ok (some a) => (match parseMessageId a with
            | .error e => .error e
            | .ok id => readPartial c fuel (some id) (skipToEndLenient t.raw rest 0)))
      else .error .unexpected
    | .comment => readPartial c fuel mid rest
    | .decl => if c.declArm then readPartial c fuel mid rest else .error .unexpected
    | .eof => (match mid with | some v => .ok v | none => .error .missing)
    | .text s => if s == MARKER then (match mid with | some v => .ok v | none => .error .missing) else .error .unexpected
    | _ => .error .unexpected

/-- what the reply future resolves to -/
inductive Outcome where
  | ok
  | data (s : String)
  | rpcError (es : List RpcError)
  | err (e : Err)
  deriving DecidableEq, Repr, Inhabited

def Body.intoResult : Body → Outcome
  | .ok => .ok
  | .data s => .data s
  | .errs es => .rpcError es

/-- both parse phases + the message-id cross-check + `into_result`, for a message that phase 1
accepted with id `id1` -/
def phase2 (c : RCfg) (k : ReplyKind) (id1 : Nat) (evs : List Ev) : Outcome :=
  match fromXmlReply c k (evs.length + 1) none evs with
  | .error e => .err e
  | .ok (id2, b) => if id2 == id1 then b.intoResult else .err .mismatch

/-- a whole reply message as one future sees it (same id expected) -/
def readMessage (c : RCfg) (k : ReplyKind) (evs : List Ev) : Outcome :=
  match readPartial c (evs.length + 1) none evs with
  | .error e => .err e
  | .ok id1 => phase2 c k id1 evs

end Xml
