import Bgpfu.Model.Policy
/-
Reference Junos configuration model (DESIGN.md Appendix B) and the agent's reader of installed
policies expressed on that structure.

  JCfg / applyPatch   merge semantics of `<load-configuration action="merge" format="xml">` with
                      `delete="delete"` on policy-statement / term / route-filter
                      (my reading of the Junos documentation — trusted base)
  accepts             first-match policy evaluation, protocol default = accept
  readInstalled       junos-agent/src/policies/fetch.rs:233-463 (`Maybe<Installed>`, `Term`, `TermFrom`,
                      `RouteFilter`, `try_into_ranges`): acceptance conditions and result, on the structure
  run                 one agent run: read installed → compare → render → load every update
Import-free.
-/
namespace Policy

/-- a term of a policy-statement (keyed by its name in `JPolicy.terms`) -/
structure JTerm where
  family : Option Str
  filters : List Range
  accept : Bool
  deriving DecidableEq, Repr

structure JPolicy where
  comment : Option Str
  terms : List (Str × JTerm)
  thenReject : Bool
  deriving DecidableEq, Repr

abbrev JCfg := List (Str × JPolicy)

/-! ### merge semantics -/

/-- route-filters of one `<from>`, in document order -/
def applyFilters : List Range → List PFilter → Except Err (List Range)
  | fs, [] => .ok fs
  | fs, ⟨true, r⟩ :: rest =>
    if r ∈ fs then applyFilters (fs.filter (fun x => decide (x ≠ r))) rest else .error .filterNotFound
  | fs, ⟨false, r⟩ :: rest => applyFilters (if r ∈ fs then fs else fs ++ [r]) rest

def emptyTerm : JTerm := { family := none, filters := [], accept := false }

/-- content of a (non-delete) `<term>` merged into an existing or freshly created term -/
def applyTermBody (t : JTerm) (pt : PTerm) : Except Err JTerm :=
  match pt.frm with
  | none => .ok { t with accept := t.accept || pt.accept }
  | some f =>
    match applyFilters t.filters f.filters with
    | .error e => .error e
    | .ok fs =>
      .ok { family := (match f.family with | some x => some x | none => t.family)
            filters := fs
            accept := t.accept || pt.accept }

def applyTerm (ts : List (Str × JTerm)) (pt : PTerm) : Except Err (List (Str × JTerm)) :=
  if pt.del then
    (if pt.frm.isSome || pt.accept then .error .badDelete
     else match alGet pt.name ts with
      | none => .error .termNotFound
      | some _ => .ok (alErase pt.name ts))
  else
    match applyTermBody ((alGet pt.name ts).getD emptyTerm) pt with
    | .error e => .error e
    | .ok t' => .ok (alPut pt.name t' ts)

def applyTerms : List (Str × JTerm) → List PTerm → Except Err (List (Str × JTerm))
  | ts, [] => .ok ts
  | ts, pt :: rest =>
    match applyTerm ts pt with
    | .error e => .error e
    | .ok ts' => applyTerms ts' rest

def emptyPolicy : JPolicy := { comment := none, terms := [], thenReject := false }

/-- one `<policy-statement>` element merged into the (possibly absent) statement of that name -/
def applyStmt (cur : Option JPolicy) (p : PStmt) : Except Err (Option JPolicy) :=
  if p.del then
    (if !p.terms.isEmpty || p.reject then .error .badDelete
     else match cur with
      | none => .error .stmtNotFound
      | some _ => .ok none)
  else
    let p0 := cur.getD emptyPolicy
    match applyTerms p0.terms p.terms with
    | .error e => .error e
    | .ok ts =>
      .ok (some { comment := (match p.comment with | some x => some x | none => p0.comment)
                  terms := ts
                  thenReject := p0.thenReject || p.reject })

def applyPatch (cfg : JCfg) (p : PStmt) : Except Err JCfg :=
  match applyStmt (alGet p.name cfg) p with
  | .error e => .error e
  | .ok r => .ok (alSet p.name r cfg)

def applyAll : JCfg → List PStmt → Except Err JCfg
  | cfg, [] => .ok cfg
  | cfg, p :: ps =>
    match applyPatch cfg p with
    | .error e => .error e
    | .ok cfg' => applyAll cfg' ps

/-! ### policy evaluation -/

structure Route where
  v6 : Bool
  addr : Nat
  len : Nat
  deriving DecidableEq, Repr

def bitsOf (v6 : Bool) : Nat := if v6 then 128 else 32
def famName (v6 : Bool) : Str := if v6 then inet6 else inet

/-- `route-filter <addr>/<len> prefix-length-range lo..hi` matches the route -/
def Range.matchesRoute (g : Range) (r : Route) : Bool :=
  g.v6 == r.v6 && decide (g.len ≤ r.len) && decide (g.lo ≤ r.len) && decide (r.len ≤ g.hi)
    && r.addr / 2 ^ (bitsOf g.v6 - g.len) == g.addr / 2 ^ (bitsOf g.v6 - g.len)

/-- a term matches iff (no family condition or the route's family) and (no filter or one matches) -/
def JTerm.matchesRoute (t : JTerm) (r : Route) : Bool :=
  (match t.family with
   | none => true
   | some f => f == famName r.v6)
  && (t.filters.isEmpty || t.filters.any (·.matchesRoute r))

/-- First term that matches and has a terminating action decides (the only terminating action of
a term here is `accept`); then the policy's own `then reject`; otherwise the protocol default,
taken to be *accept*. -/
def accepts (p : JPolicy) (r : Route) : Bool :=
  p.terms.any (fun kt => kt.2.accept && kt.2.matchesRoute r) || !p.thenReject

/-! ### the agent's reader of installed policies (fetch.rs:233-463) -/

/-- `try_into_ranges`: `address.parse::<Prefix<A>>()` (wrong syntax for the family, length out of
range → error; host bits are masked), the length range (`PrefixLength` out of range → error),
`with_length_range` (`lower = max(len, lo)`; error unless `lower ≤ hi`) -/
def readRange (f : Fam) (r : Range) : Except Err Range :=
  if r.v6 != f.isV6 then .error .badRange
  else if decide (f.bits < r.len) || decide (f.bits < r.lo) || decide (f.bits < r.hi)
          || decide (2 ^ f.bits ≤ r.addr) then .error .badRange
  else if max r.len r.lo ≤ r.hi then
    .ok { r with lo := max r.len r.lo, addr := r.addr - r.addr % 2 ^ (f.bits - r.len) }
  else .error .badRange

def readRanges (f : Fam) : List Range → Except Err (List Range)
  | [] => .ok []
  | r :: rs =>
    match readRange f r with
    | .error e => .error e
    | .ok r' =>
      match readRanges f rs with
      | .error e => .error e
      | .ok rs' => .ok (r' :: rs')

/-- `Term::borrowed_read_xml` + the family dispatch of `Maybe<Installed>::read_xml`:
`<then><accept/></then>` required, `<from>` with `<family>` required, name = family,
family ∈ {inet, inet6}. The text of `<family>` is trimmed (fetch.rs:501 `trimmed(..)`), the term's
`<name>` is not (fetch.rs:363): ` inet ` is the family `inet`, but a term named ` inet ` matches no family. -/
def readTerm (k : Str) (t : JTerm) : Except Err (Fam × List Range) :=
  if !t.accept then .error .noThen
  else match t.family with
    | none => .error .noFrom
    | some fam0 =>
      let fam := trimB fam0
      if fam ≠ k then .error .nameMismatch
      else if fam = inet then
        (match readRanges .v4 t.filters with
         | .error e => .error e
         | .ok rs => .ok (.v4, dedup rs))
      else if fam = inet6 then
        (match readRanges .v6 t.filters with
         | .error e => .error e
         | .ok rs => .ok (.v6, dedup rs))
      else .error .unknownFamily

/-- the `"inet" if ipv4.is_none()` / `"inet6" if ipv6.is_none()` guards -/
def readTerms : List (Str × JTerm) → Option (List Range) → Option (List Range) →
    Except Err (Option (List Range) × Option (List Range))
  | [], a, b => .ok (a, b)
  | (k, t) :: rest, a, b =>
    match readTerm k t with
    | .error e => .error e
    | .ok (.v4, rs) =>
      (match a with
       | none => readTerms rest (some rs) b
       | some _ => .error .dupFamily)
    | .ok (.v6, rs) =>
      (match b with
       | none => readTerms rest a (some rs)
       | some _ => .error .dupFamily)

/-- `Maybe<Installed>::read_xml`: terms are parsed (and may fail) before the default-reject
check; a statement without `<then><reject/></then>` is skipped -/
def readPolicy (c : Cfg) (n : Str) (p : JPolicy) : Except Err (Option (Str × Installed)) :=
  match readTerms p.terms none none with
  | .error e => .error e
  | .ok (a, b) =>
    if p.thenReject then .ok (some (nameOf c n, ⟨a.getD [], b.getD []⟩)) else .ok none

def readAll (c : Cfg) : JCfg → Except Err (List (Str × Installed))
  | [] => .ok []
  | (n, p) :: rest =>
    match readPolicy c n p with
    | .error e => .error e
    | .ok r =>
      match readAll c rest with
      | .error e => .error e
      | .ok rs =>
        match r with
        | none => .ok rs
        | some e => .ok (e :: rs)

/-- `Policies<Installed>::read_xml`: duplicate names fail the whole read -/
def readInstalled (c : Cfg) (cfg : JCfg) : Except Err (List (Str × Installed)) :=
  match readAll c cfg with
  | .error e => .error e
  | .ok l => if (keys l).Nodup then .ok l else .error .dupPolicy

/-! ### one agent run, as far as the ephemeral configuration is concerned -/

def plan (c : Cfg) (cfg : JCfg) (ev : List (Str × Evaluated)) : Except Err (List PStmt) :=
  match readInstalled c cfg with
  | .error e => .error e
  | .ok inst => .ok ((compare ev inst).map (render c))

def run (c : Cfg) (cfg : JCfg) (ev : List (Str × Evaluated)) : Except Err JCfg :=
  match plan c cfg ev with
  | .error e => .error e
  | .ok ps => applyAll cfg ps

/-- several consecutive runs -/
def runs (c : Cfg) : JCfg → List (List (Str × Evaluated)) → Except Err JCfg
  | cfg, [] => .ok cfg
  | cfg, ev :: rest =>
    match run c cfg ev with
    | .error e => .error e
    | .ok cfg' => runs c cfg' rest

/-- the whole pipeline from the running configuration (annotations) and the IRR oracle -/
def planFrom (c : Cfg) (running : List RStmt) (oracle : Str → Option (List Range × List Range))
    (cfg : JCfg) : Except Err (List PStmt) :=
  match candidates c running with
  | .error e => .error e
  | .ok cands => plan c cfg (evaluateAll oracle cands)

/-! ### structural views used by the specifications -/

/-- route-filters of the term named after family `f` (`[]` if there is no such term) -/
def filtersOf (f : Fam) (p : JPolicy) : List Range :=
  match alGet f.name p.terms with
  | some t => t.filters
  | none => []

/-- set equality of two range lists -/
def seteq (a b : List Range) : Bool := a.all (fun r => decide (r ∈ b)) && b.all (fun r => decide (r ∈ a))

/-- ranges accepted for family `f`: route-filters of the accepting terms whose family condition is `f` -/
def acceptSet (f : Fam) (p : JPolicy) : List Range :=
  p.terms.flatMap fun kt => if kt.2.accept && kt.2.family == some f.name then kt.2.filters else []

/-- every accepting term is restricted to one of the two address families and to explicit
route-filters (no accept-all term, no family-wide accept) -/
def restricted (p : JPolicy) : Bool :=
  p.terms.all fun kt =>
    !kt.2.accept || ((kt.2.family == some inet || kt.2.family == some inet6) && !kt.2.filters.isEmpty)

/-- C01: the policy accepts exactly the evaluated ranges and ends in reject -/
def convergedTo (p : JPolicy) (a b : List Range) : Bool :=
  restricted p && seteq (acceptSet .v4 p) a && seteq (acceptSet .v6 p) b && p.thenReject

/-- C02: the policy accepts nothing outside the evaluated ranges and ends in reject -/
def safeFor (p : JPolicy) (a b : List Range) : Bool :=
  restricted p && (acceptSet .v4 p).all (fun r => decide (r ∈ a))
    && (acceptSet .v6 p).all (fun r => decide (r ∈ b)) && p.thenReject

/-- semantic equality of two policies: same terms (name, family, action) with equal filter sets,
same default action (comments and term order are not semantic) -/
def semEqTerms (ts us : List (Str × JTerm)) : Bool :=
  ts.all (fun kt => match alGet kt.1 us with
    | some u => decide (kt.2.family = u.family) && kt.2.accept == u.accept && seteq kt.2.filters u.filters
    | none => false)

def semEqPolicy (p q : JPolicy) : Bool :=
  p.thenReject == q.thenReject && semEqTerms p.terms q.terms && semEqTerms q.terms p.terms

def semEqCfg (c d : JCfg) : Bool :=
  c.all (fun np => match alGet np.1 d with | some q => semEqPolicy np.2 q | none => false)
  && d.all (fun np => match alGet np.1 c with | some q => semEqPolicy np.2 q | none => false)

def wfTerm (k : Str) (t : JTerm) : Bool :=
  (decide (k = inet) && decide (t.family = some inet) && t.accept && !t.filters.isEmpty
      && t.filters.all (Range.valid .v4))
  || (decide (k = inet6) && decide (t.family = some inet6) && t.accept && !t.filters.isEmpty
      && t.filters.all (Range.valid .v6))

def wfPolicy (p : JPolicy) : Bool :=
  p.thenReject && decide (keys p.terms).Nodup && p.terms.all (fun kt => wfTerm kt.1 kt.2)

/-- decidable characterisation of the states the (repaired) agent can produce -/
def agentState (cfg : JCfg) : Bool :=
  decide (keys cfg).Nodup && cfg.all (fun np => wfPolicy np.2)

end Policy
