/-
Model of the end-of-message framing loops of
  netconf/src/transport/tls.rs        Receiver::recv   (== junos_local.rs Receiver::recv)
  netconf/src/transport/ssh.rs        the pump task spawned by Ssh::connect
Import-free so that the line-protocol driver links as a plain executable.

The loops are parametrised by the two constants that distinguish the code as it was pinned
from the code after the `fix:` commits, so that both the theorem for the current code and the
counter-example for the pinned code are statements about the *same* function:

  back     : how many bytes before the end of the buffer the next search restarts
             (pinned: 0  — `searched = buf.len()`;  fixed: MARKER.len() - 1)
  eofCheck : whether a 0-byte read is reported as an error (pinned: false; fixed: true)
  drain    : whether the SSH pump extracts every complete message from a packet
             (pinned: false — one `find` per packet; fixed: true)
-/
namespace Framing

abbrev Byte := Nat

/-- `]]>]]>` -/
def marker : List Byte := [93, 93, 62, 93, 93, 62]

/-- index of the leftmost occurrence of `pat` in `l` (memchr::memmem::Finder::find) -/
def find (pat : List Byte) : List Byte → Option Nat
  | [] => if pat.isEmpty then some 0 else none
  | x :: xs =>
    if pat.isPrefixOf (x :: xs) then some 0
    else (find pat xs).map (· + 1)

/-- What one `read_buf().await` can yield. -/
inductive Read where
  | data (bs : List Byte)      -- n > 0 bytes appended to the buffer (bs ≠ [] is not required by the model)
  | eof                        -- Ok(0): end of stream; every later read is also Ok(0)
  | ioErr                      -- Err(_)
  deriving Repr, DecidableEq

inductive Out where
  /-- a message was split off; remaining buffer; reads not yet consumed -/
  | msg (m : List Byte) (buf : List Byte) (rest : List Read)
  /-- the loop is blocked in `read_buf` with nothing available (no further traffic) -/
  | pending (buf : List Byte)
  /-- the call returned `Err` -/
  | err (buf : List Byte)
  /-- the loop can never exit and never blocks: every further read returns 0 and is ignored -/
  | spin (buf : List Byte)
  deriving Repr, DecidableEq

structure Cfg where
  back : Nat
  eofCheck : Bool
  deriving Repr, DecidableEq

def Cfg.pinned : Cfg := { back := 0, eofCheck := false }
def Cfg.fixed : Cfg := { back := marker.length - 1, eofCheck := true }

/-- `Receiver::recv`: the loop body, one iteration per element of `reads`. -/
def recvLoop (c : Cfg) : (reads : List Read) → (searched : Nat) → (buf : List Byte) → Out
  | [], searched, buf =>
    match find marker (buf.drop searched) with
    | some i => .msg (buf.take (searched + i + marker.length)) (buf.drop (searched + i + marker.length)) []
    | none => .pending buf
  | r :: rs, searched, buf =>
    match find marker (buf.drop searched) with
    | some i => .msg (buf.take (searched + i + marker.length)) (buf.drop (searched + i + marker.length)) (r :: rs)
    | none =>
      match r with
      | .data bs => recvLoop c rs (buf.length - c.back) (buf ++ bs)
      | .ioErr => .err buf
      | .eof => if c.eofCheck then .err buf else .spin buf

def recv (c : Cfg) (buf : List Byte) (reads : List Read) : Out := recvLoop c reads 0 buf

/-- Repeated `recv` calls on one receiver until it blocks/fails; `fuel` bounds the number of calls. -/
def recvAll (c : Cfg) : (fuel : Nat) → (buf : List Byte) → (reads : List Read) → List (List Byte) × Out
  | 0, buf, _ => ([], .pending buf)
  | fuel + 1, buf, reads =>
    match recv c buf reads with
    | .msg m buf' rest =>
      let (ms, fin) := recvAll c fuel buf' rest
      (m :: ms, fin)
    | o => ([], o)

/-! ### Specification: greedy split of a byte stream at the leftmost delimiter -/

def splitAll : (fuel : Nat) → List Byte → List (List Byte) × List Byte
  | 0, s => ([], s)
  | fuel + 1, s =>
    match find marker s with
    | some i =>
      let (ms, r) := splitAll fuel (s.drop (i + marker.length))
      (s.take (i + marker.length) :: ms, r)
    | none => ([], s)

/-- all complete messages of `s`, and the incomplete residue -/
def split (s : List Byte) : List (List Byte) × List Byte := splitAll s.length s

/-! ### SSH pump -/

/-- What `channel.wait()` can yield. -/
inductive ChanEv where
  | data (bs : List Byte)
  | eof            -- Some(ChannelMsg::Eof)
  | other          -- any other ChannelMsg
  | closed         -- None: channel closed
  deriving Repr, DecidableEq

structure PumpCfg where
  drain : Bool
  exitOnClosed : Bool
  deriving Repr, DecidableEq

def PumpCfg.pinned : PumpCfg := { drain := false, exitOnClosed := false }
def PumpCfg.fixed : PumpCfg := { drain := true, exitOnClosed := true }

/-- processing of one `ChannelMsg::Data` packet: messages enqueued, new buffer -/
def pumpData (c : PumpCfg) (buf pkt : List Byte) : List (List Byte) × List Byte :=
  let b := buf ++ pkt
  if c.drain then split b
  else match find marker b with
    | some i => ([b.take (i + marker.length)], b.drop (i + marker.length))
    | none => ([], b)

inductive PumpEnd where
  | running        -- blocked in select!, waiting for the next event
  | exited         -- task finished: in_queue_tx dropped ⇒ recv() = Err(DequeueMessage), send() = Err
  | spinning       -- `channel.wait()` returns None forever and the arm does nothing
  deriving Repr, DecidableEq

/-- the pump over a list of channel events: enqueued messages (in order), final buffer, final status -/
def pump (c : PumpCfg) : List ChanEv → List Byte → List (List Byte) × List Byte × PumpEnd
  | [], buf => ([], buf, .running)
  | .data bs :: evs, buf =>
    let (ms, buf') := pumpData c buf bs
    let (ms', fin) := pump c evs buf'
    (ms ++ ms', fin)
  | .eof :: _, buf => ([], buf, .exited)
  | .other :: evs, buf => pump c evs buf
  | .closed :: _, buf => ([], buf, if c.exitOnClosed then .exited else .spinning)

end Framing
