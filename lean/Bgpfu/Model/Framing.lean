/-
Model of the end-of-message framing loops of
  netconf/src/transport/tls.rs        Receiver::recv   (== junos_local.rs Receiver::recv)
  netconf/src/transport/ssh.rs        the pump task spawned by Ssh::connect
Import-free so that the line-protocol driver links as a plain executable.

The loops are parametrised by the two constants that distinguish the code as it was pinned
from the code after the `fix:` commits, so that both the theorem for the current code and the
counter-example for the pinned code are statements about the *same* function:

  back     : how many bytes before the end of the buffer the next search restarts
             (pinned: 0  — `searched = buf.len()`;  fixed: MARKER.len() - 1)
  eofCheck : whether a 0-byte read is reported as an error (pinned: false; fixed: true)
  drain    : whether the SSH pump extracts every complete message from a packet
             (pinned: false — one `find` per packet; fixed: true)
-/
namespace Framing

abbrev Byte := Nat

/-- `]]>]]>` -/
def marker : List Byte := [93, 93, 62, 93, 93, 62]

/-- index of the leftmost occurrence of `pat` in `l` (memchr::memmem::Finder::find) -/
def find (pat : List Byte) : List Byte → Option Nat
  | [] => if pat.isEmpty then some 0 else none
  | x :: xs =>
    if pat.isPrefixOf (x :: xs) then some 0
    else (find pat xs).map (· + 1)

/-- What one `read_buf().await` can yield. -/
inductive Read where
  | data (bs : List Byte)      -- n > 0 bytes appended to the buffer (bs ≠ [] is not required by the model)
  | eof                        -- Ok(0): end of stream; every later read is also Ok(0)
  | ioErr                      -- Err(_)
  deriving Repr, DecidableEq

inductive Out where
  /-- a message was split off; remaining buffer; reads not yet consumed -/
  | msg (m : List Byte) (buf : List Byte) (rest : List Read)
  /-- the loop is blocked in `read_buf` with nothing available (no further traffic) -/
  | pending (buf : List Byte)
  /-- the call returned `Err` -/
  | err (buf : List Byte)
  /-- the loop can never exit and never blocks: every further read returns 0 and is ignored -/
  | spin (buf : List Byte)
  deriving Repr, DecidableEq

structure Cfg where
  back : Nat
  eofCheck : Bool
  deriving Repr, DecidableEq

def Cfg.pinned : Cfg := { back := 0, eofCheck := false }
def Cfg.fixed : Cfg := { back := marker.length - 1, eofCheck := true }

/-- `Receiver::recv`: the loop body, one iteration per element of `reads`. -/
def recvLoop (c : Cfg) : (reads : List Read) → (searched : Nat) → (buf : List Byte) → Out
  | [], searched, buf =>
    match find marker (buf.drop searched) with
    | some i => .msg (buf.take (searched + i + marker.length)) (buf.drop (searched + i + marker.length)) []
    | none => .pending buf
  | r :: rs, searched, buf =>
    match find marker (buf.drop searched) with
    | some i => .msg (buf.take (searched + i + marker.length)) (buf.drop (searched + i + marker.length)) (r :: rs)
    | none =>
      match r with
      | .data bs => recvLoop c rs (buf.length - c.back) (buf ++ bs)
      | .ioErr => .err buf
      | .eof => if c.eofCheck then .err buf else .spin buf

def recv (c : Cfg) (buf : List Byte) (reads : List Read) : Out := recvLoop c reads 0 buf

/-- Repeated `recv` calls on one receiver until it blocks/fails; `fuel` bounds the number of calls. -/
def recvAll (c : Cfg) : (fuel : Nat) → (buf : List Byte) → (reads : List Read) → List (List Byte) × Out
  | 0, buf, _ => ([], .pending buf)
  | fuel + 1, buf, reads =>
    match recv c buf reads with
    | .msg m buf' rest =>
      let (ms, fin) := recvAll c fuel buf' rest
      (m :: ms, fin)
    | o => ([], o)

/-! ### Specification: greedy split of a byte stream at the leftmost delimiter -/

def splitAll : (fuel : Nat) → List Byte → List (List Byte) × List Byte
  | 0, s => ([], s)
  | fuel + 1, s =>
    match find marker s with
    | some i =>
      let (ms, r) := splitAll fuel (s.drop (i + marker.length))
      (s.take (i + marker.length) :: ms, r)
    | none => ([], s)

/-- all complete messages of `s`, and the incomplete residue -/
def split (s : List Byte) : List (List Byte) × List Byte := splitAll s.length s

/-! ### SSH pump -/

/-- What `channel.wait()` can yield. -/
inductive ChanEv where
  | data (bs : List Byte)
  | eof            -- Some(ChannelMsg::Eof)
  | other          -- any other ChannelMsg
  | closed         -- None: channel closed
  deriving Repr, DecidableEq

structure PumpCfg where
  drain : Bool
  exitOnClosed : Bool
  deriving Repr, DecidableEq

def PumpCfg.pinned : PumpCfg := { drain := false, exitOnClosed := false }
def PumpCfg.fixed : PumpCfg := { drain := true, exitOnClosed := true }

/-- processing of one `ChannelMsg::Data` packet: messages enqueued, new buffer -/
def pumpData (c : PumpCfg) (buf pkt : List Byte) : List (List Byte) × List Byte :=
  let b := buf ++ pkt
  if c.drain then split b
  else match find marker b with
    | some i => ([b.take (i + marker.length)], b.drop (i + marker.length))
    | none => ([], b)

inductive PumpEnd where
  | running        -- blocked in select!, waiting for the next event
  | exited         -- task finished: in_queue_tx dropped ⇒ recv() = Err(DequeueMessage), send() = Err
  | spinning       -- `channel.wait()` returns None forever and the arm does nothing
  deriving Repr, DecidableEq

/-- the pump over a list of channel events: enqueued messages (in order), final buffer, final status -/
def pump (c : PumpCfg) : List ChanEv → List Byte → List (List Byte) × List Byte × PumpEnd
  | [], buf => ([], buf, .running)
  | .data bs :: evs, buf =>
    let (ms, buf') := pumpData c buf bs
    let (ms', fin) := pump c evs buf'
    (ms ++ ms', fin)
  | .eof :: _, buf => ([], buf, .exited)
  | .other :: evs, buf => pump c evs buf
  | .closed :: _, buf => ([], buf, if c.exitOnClosed then .exited else .spinning)

/-! ### SSH pump + bounded queue `in_queue` + consumer (small-step)

ssh.rs:59      `let (in_queue_tx, in_queue_rx) = mpsc::channel(32);`
ssh.rs:91-97   `while let Some(index) = message_break.find(&in_buf) { … split_to(end) …;
                in_queue_tx.send(message).await?; }`
ssh.rs:171-173 `Receiver::recv` = `self.inner.recv().await` (the consumer: one dequeue per call)

`pump` above treats the queue as unbounded. Here the queue has a capacity, and `send(..).await`
on a full queue *waits* (back-pressure): the pump task is suspended inside the `while let` loop and
does not look at the channel again before the message is enqueued.

The `while let` loop is modelled as: on a data event all complete messages are split off at once
(`pumpData .fixed`, i.e. `split`; the real loop splits them off one by one, which is the same list
by `split_append`) into `todo`; then one message is moved to the queue per pump step.

`wait = true` is the code as it is. `wait = false` is the variant that does not wait
(`try_reserve()` and `break` out of the `while let` when the queue is full): the messages that were
not enqueued stay in `in_buf`, and the loop is only entered again by the next `ChannelMsg::Data`. -/

structure PQ where
  /-- channel events that have not been processed yet -/
  evs : List ChanEv
  /-- `in_buf` -/
  buf : List Byte
  /-- complete messages the `while let` loop still has to enqueue (it is suspended in / about to call `send`) -/
  todo : List (List Byte)
  /-- contents of `in_queue`, oldest first -/
  queue : List (List Byte)
  /-- what `Receiver::recv` has returned so far, oldest first -/
  delivered : List (List Byte)
  /-- `exited`: the task has finished, `in_queue_tx` is dropped (what is queued can still be received) -/
  st : PumpEnd
  deriving Repr, DecidableEq

def PQ.init (evs : List ChanEv) : PQ :=
  { evs := evs, buf := [], todo := [], queue := [], delivered := [], st := .running }

inductive PQAct where
  | pump        -- the pump task is polled
  | consume     -- the session calls `recv()` on the receive handle
  deriving Repr, DecidableEq

/-- the `msg = channel.wait()` arm of the `select!` (only reached when the `while let` loop is not running) -/
def PQ.chanStep (s : PQ) : PQ :=
  match s.evs with
  | [] => s                                   -- blocked in `select!`
  | .data bs :: evs =>
    let (ms, buf') := pumpData .fixed s.buf bs
    { s with evs := evs, buf := buf', todo := ms }
  | .other :: evs => { s with evs := evs }
  | .eof :: _ => { s with evs := [], st := .exited }      -- `break`: later events are never looked at
  | .closed :: _ => { s with evs := [], st := .exited }

/-- one poll of the pump task -/
def PQ.pumpStep (wait : Bool) (cap : Nat) (s : PQ) : PQ :=
  match s.todo with
  | m :: ms =>
    if s.queue.length < cap then { s with todo := ms, queue := s.queue ++ [m] }    -- `send` completes
    else if wait then s                                                             -- `send(..).await` pending
    else { s with todo := [], buf := (m :: ms).flatten ++ s.buf }                   -- `break`; bytes stay in `in_buf`
  | [] => s.chanStep

/-- one `recv()` of the consumer -/
def PQ.consumeStep (s : PQ) : PQ :=
  match s.queue with
  | m :: q => { s with queue := q, delivered := s.delivered ++ [m] }
  | [] => s        -- blocked (pump running) or `Err(DequeueMessage)` (pump exited): nothing delivered

def PQ.step (wait : Bool) (cap : Nat) (s : PQ) : PQAct → PQ
  | .pump => s.pumpStep wait cap
  | .consume => s.consumeStep

def PQ.run (wait : Bool) (cap : Nat) : List PQAct → PQ → PQ
  | [], s => s
  | a :: as, s => PQ.run wait cap as (s.step wait cap a)

/-- the round-robin schedule: `n` times (pump, consume) -/
def roundRobin : Nat → List PQAct
  | 0 => []
  | n + 1 => .pump :: .consume :: roundRobin n

end Framing
