/-
Model of the daemon loop
  junos-agent/src/task.rs:128-180     Loop::start  (MIN_BACKOFF, the `select!` loop)
  junos-agent/src/cli.rs:75-86        frequency 0 = one-shot, otherwise Daemon(NonZeroU64)
Import-free so that the line-protocol driver links as a plain executable.

Time is a `Nat` number of milliseconds since `Loop::start` was entered (tokio's timer resolution).
`period` is `self.period` in milliseconds; it is non-zero because `init_loop` takes a `NonZeroU64`
(the theorems carry `0 < period` as a hypothesis where they need it).

The loop is a transition system over *events*.  An event is one thing the loop observes:

  tick t          the `interval.tick()` arm of the `select!` fires at time t and the updater job is
                  spawned ("starting updater job")                                   task.rs:162-164
  runDone t ok    `handle_task(tokio::spawn(job)).await` returns at time t          task.rs:165-176
  hup t           the `sighup.recv()`  arm fires at time t                           task.rs:157-160
  int t           the `sigint.recv()`  arm fires at time t                           task.rs:149-152
  term t          the `sigterm.recv()` arm fires at time t                           task.rs:153-156

ASSUMPTIONS about tokio (documented behaviour of tokio 1.x `time::Interval` / `signal::unix`;
sampled by the correspondence run, not proved):

  A1  `time::interval(p)`: the first `tick()` completes immediately (deadline = creation time).
  A2  `Interval::reset()`            sets the next deadline to  now + period,
      `Interval::reset_after(d)`     sets the next deadline to  now + d,
      `Interval::reset_immediately()` sets the next deadline to now.
      The deadline that `tick()` itself schedules when it completes (old deadline + period, the
      `Burst` behaviour) is never used: both arms of the `match` overwrite it before the next
      `select!`.
  A3  timers are prompt: `tick()` completes at its deadline, not later (`accepts`, the `tick` case).
      Consequently a signal arm can only fire at a time ≤ the deadline.  Under tokio's paused clock
      this is exact; in real time the slack is the scheduler's latency.
  A4  the signal arms are polled only inside the `select!`, i.e. while no updater job is awaited;
      a signal raised during a job is latched by tokio's signal stream and observed when the loop
      returns to the `select!` (that is the event's time `t`; see `schedule`).
  A5  `select!` picks fairly among the arms that are ready at the same instant; the model does not
      fix that choice — it is the order of the events in the list.

Defect D12.  `backoff = min(self.period, backoff * 2)` (task.rs:174) makes the second retry delay
*smaller* than the first when `period < MIN_BACKOFF`.  The update rule is a parameter (`Cfg`) so
that the theorem for the repaired rule and the counter-example for the pinned rule are statements
about the same function:

  Cfg.pinned :  backoff' = min period (2 * backoff)                        (the code as pinned)
  Cfg.fixed  :  backoff' = min (max period MIN_BACKOFF) (2 * backoff)      (the repaired rule)
-/
namespace Daemon

/-- `MIN_BACKOFF = Duration::from_secs(60)` (task.rs:133), in milliseconds -/
def minBackoff : Nat := 60000

structure Cfg where
  /-- the cap of the doubling is `max period MIN_BACKOFF` instead of `period` -/
  capFloor : Bool
  deriving Repr, DecidableEq

def Cfg.pinned : Cfg := { capFloor := false }
def Cfg.fixed : Cfg := { capFloor := true }

/-- the cap of the doubling (task.rs:174, first argument of `min`) -/
def cap (c : Cfg) (period : Nat) : Nat :=
  if c.capFloor then max period minBackoff else period

/-- `backoff = min(<cap>, backoff * 2)` (task.rs:174) -/
def backoffNext (c : Cfg) (period b : Nat) : Nat := min (cap c period) (2 * b)

inductive Ev where
  | tick (t : Nat)
  | runDone (t : Nat) (ok : Bool)
  | hup (t : Nat)
  | int (t : Nat)
  | term (t : Nat)
  deriving Repr, DecidableEq

def Ev.time : Ev → Nat
  | .tick t | .runDone t _ | .hup t | .int t | .term t => t

inductive Phase where
  | waiting     -- inside `select!`
  | running     -- awaiting `handle_task(tokio::spawn(job))`
  | exited      -- `break Ok(())` was executed
  deriving Repr, DecidableEq

structure State where
  phase : Phase
  /-- time of the last event (the current instant as far as the loop knows) -/
  now : Nat
  /-- next deadline of `interval` -/
  deadline : Nat
  /-- the variable `backoff` -/
  backoff : Nat
  deriving Repr, DecidableEq

/-- state on entry to the first `select!`: `interval` just created (A1), `backoff = MIN_BACKOFF`
    (task.rs:138-139) -/
def init : State := { phase := .waiting, now := 0, deadline := 0, backoff := minBackoff }

/-- Can the loop observe event `e` in state `s`?  (A3, A4; time does not run backwards.) -/
def accepts (s : State) : Ev → Bool
  | .tick t => s.phase == .waiting && t == s.deadline && s.now ≤ t
  | .runDone t _ => s.phase == .running && s.now ≤ t
  | .hup t | .int t | .term t => s.phase == .waiting && s.now ≤ t && t ≤ s.deadline

/-- The loop body, arm by arm (only meaningful when `accepts s e`). -/
def next (c : Cfg) (period : Nat) (s : State) : Ev → State
  -- `_ = interval.tick() => { … let job = self.updater.clone().run(); … tokio::spawn(job)`
  | .tick t => { s with phase := .running, now := t }
  -- `Ok(()) => { interval.reset(); backoff = MIN_BACKOFF; }`
  | .runDone t true => { phase := .waiting, now := t, deadline := t + period, backoff := minBackoff }
  -- `Err(err) => { interval.reset_after(backoff); backoff = min(self.period, backoff * 2); }`
  | .runDone t false =>
    { phase := .waiting, now := t, deadline := t + s.backoff, backoff := backoffNext c period s.backoff }
  -- `_ = sighup.recv() => { interval.reset_immediately(); }`
  | .hup t => { s with now := t, deadline := t }
  -- `_ = sigint.recv() => { break Ok(()) }`
  | .int t => { s with phase := .exited, now := t }
  -- `_ = sigterm.recv() => { break Ok(()) }`
  | .term t => { s with phase := .exited, now := t }

/-- one event; events the loop cannot observe in this state leave it unchanged -/
def step (c : Cfg) (period : Nat) (s : State) (e : Ev) : State :=
  if accepts s e then next c period s e else s

/-- the state after a list of events -/
def run (c : Cfg) (period : Nat) : State → List Ev → State
  | s, [] => s
  | s, e :: es => run c period (step c period s e) es

/-- the events the loop actually observed, in order (its timeline): `tick t` = a run started at
    `t`; `int t` / `term t` = the loop exited at `t` -/
def trace (c : Cfg) (period : Nat) : State → List Ev → List Ev
  | _, [] => []
  | s, e :: es =>
    if accepts s e then e :: trace c period (next c period s e) es else trace c period s es

/-- number of consecutive failed runs at the end of a timeline, continuing a streak of `k` -/
def streakFrom : Nat → List Ev → Nat
  | k, [] => k
  | _, .runDone _ true :: es => streakFrom 0 es
  | k, .runDone _ false :: es => streakFrom (k + 1) es
  | k, _ :: es => streakFrom k es

def streak (tr : List Ev) : Nat := streakFrom 0 tr

/-- the value of `backoff` after `n` consecutive failures (since start or since the last success) -/
def backoffAt (c : Cfg) (period : Nat) : Nat → Nat
  | 0 => minBackoff
  | n + 1 => backoffNext c period (backoffAt c period n)

/-! ### The environment of the correspondence run

A *script* fixes what the outside world does: how long each run takes and how it ends, and at what
times which signals are raised.  `schedule` turns a script into the timeline of the loop under
tokio's paused clock: the environment proposes the next event (`propose`) and the loop takes it
(only accepted events are emitted, so `trace … (schedule …) = schedule …` by construction).

  * A3: the timer fires exactly at its deadline; a signal raised strictly before the deadline is
    observed at the instant it is raised;
  * A4: a signal raised while a job is awaited (its time is ≤ `s.now` when the loop is back in the
    `select!`) is observed at `s.now`; signals of one kind raised several times before they are
    observed coalesce into one (tokio's signal streams are level-triggered);
  * A5: ties (a signal raised exactly at a deadline; two different kinds latched during one job)
    are resolved here as "timer first" / "in the order raised"; the real `select!` is random, and the
    harness never scripts such a tie. -/

inductive Sig where
  | hup | int | term
  deriving Repr, DecidableEq

def Sig.ev (t : Nat) : Sig → Ev
  | .hup => .hup t | .int => .int t | .term => .term t

/-- the next event the environment offers in state `s`, with the remaining runs and signals -/
def propose (s : State) (runs : List (Nat × Bool)) (sigs : List (Nat × Sig)) :
    Option (Ev × List (Nat × Bool) × List (Nat × Sig)) :=
  match s.phase with
  | .exited => none
  | .running =>
    -- the job started at `s.now`; runs beyond the script fail at once
    let (d, ok) := runs.head?.getD (0, false)
    some (.runDone (s.now + d) ok, runs.tail, sigs)
  | .waiting =>
    match sigs with
    | (t, k) :: rest =>
      if t ≤ s.now then
        -- latched while the job ran
        some (k.ev s.now, runs, rest.filter fun (u, k') => !(k' == k && u ≤ s.now))
      else if t < s.deadline then some (k.ev t, runs, rest)
      else some (.tick s.deadline, runs, sigs)
    | [] => some (.tick s.deadline, runs, sigs)

/-- Timeline of the loop for a script (`runs`, `sigs` sorted by time), observed up to and
    including time `horizon`; at most `fuel` events. -/
def schedule (c : Cfg) (period horizon : Nat) :
    (fuel : Nat) → State → List (Nat × Bool) → List (Nat × Sig) → List Ev
  | 0, _, _, _ => []
  | fuel + 1, s, runs, sigs =>
    match propose s runs sigs with
    | none => []
    | some (e, runs', sigs') =>
      if horizon < e.time then []
      else if accepts s e then e :: schedule c period horizon fuel (next c period s e) runs' sigs'
      else schedule c period horizon fuel s runs' sigs'

/-- start times of the runs in a timeline -/
def starts : List Ev → List Nat
  | [] => []
  | .tick t :: es => t :: starts es
  | _ :: es => starts es

/-- the time at which the loop exited, if it did -/
def exitAt : List Ev → Option Nat
  | [] => none
  | .int t :: _ => some t
  | .term t :: _ => some t
  | _ :: es => exitAt es

end Daemon
