/-
RFC 6241 side of property C09 — written from the RFC text, *not* from /repo.

`Request` is a request as it appears on the wire (what a server sees): operation name, the
datastores / inline config / URLs it names, and the optional parameters that are present.
`requires r` lists what section 8 of RFC 6241 (and the normative YANG module of section 10.3,
whose `if-feature` statements restate section 8) demands of the server's advertised capabilities
before `r` may be sent:

  8.2 :writable-running   <running/> as <target> of edit-config, copy-config
  8.3 :candidate          <candidate/> as source/target of get-config, edit-config, copy-config,
                          validate, lock, unlock;  the operations commit, discard-changes
  8.4 :confirmed-commit   1.0 (RFC 4741): <confirmed>, <confirm-timeout> of commit;
                          1.1 adds <persist>, <persist-id> and the operation cancel-commit
  8.5 :rollback-on-error  the value rollback-on-error of <error-option>
  8.6 :validate           1.0: operation validate, <test-option> (test-then-set, set) of edit-config;
                          1.1 adds the value test-only
  8.7 :startup            <startup/> for get-config (source), copy-config (source, target), lock,
                          unlock (target), validate (source), delete-config (target) — 8.7.5.1
  8.8 :url                <url> for edit-config (instead of <config>), copy-config (source, target),
                          delete-config (target), validate (source); the URL's scheme must be listed
                          in the capability's `scheme` argument
  8.9 :xpath              type="xpath" on <filter> (get, get-config)

Anything the RFC does not allow under *any* capability (e.g. <startup/> as edit-config target,
anything but <startup/> or a URL as delete-config target) is `Requirement.never`.
The Junos operations are not RFC 6241 material; the property statement says they need the Junos
capability `http://xml.juniper.net/netconf/junos/1.0`.
-/
import Bgpfu.Model.Caps
namespace Rfc
open Caps

inductive Datastore where
  | running | candidate | startup
  deriving DecidableEq, Repr

inductive FilterType where
  | subtree | xpath
  deriving DecidableEq, Repr

/-- what can stand inside `<source>` / `<target>` -/
inductive Endpoint where
  | ds (d : Datastore)
  | config
  | url (scheme : Str)
  deriving DecidableEq, Repr

inductive DefaultOp where
  | merge | replace | none
  deriving DecidableEq, Repr

inductive ErrorOpt where
  | stopOnError | continueOnError | rollbackOnError
  deriving DecidableEq, Repr

inductive TestOpt where
  | testThenSet | set | testOnly
  deriving DecidableEq, Repr

/-- edit-config content: `<config>` or `<url>` -/
inductive Content where
  | config
  | url (scheme : Str)
  deriving DecidableEq, Repr

inductive OpenTarget where
  | priv | ephemeral | ephemeralInstance (name : Str)
  deriving DecidableEq, Repr

inductive LoadFormat where
  | text | xml | json
  deriving DecidableEq, Repr

inductive LoadAction where
  | merge | override | update | replace | set
  deriving DecidableEq, Repr

inductive LoadSource where
  | rescue
  | config (f : LoadFormat) (a : LoadAction)
  | other                       -- rollback=, configuration-revision=, url= attributes
  deriving DecidableEq, Repr

inductive AtTime where
  | reboot | time | dateTime
  deriving DecidableEq, Repr

/-- Junos XML protocol requests (outside RFC 6241) -/
inductive JunosRequest where
  | closeConfiguration | lockConfiguration | unlockConfiguration
  | openConfiguration (target : OpenTarget)
  | loadConfiguration (src : LoadSource)
  | commitConfiguration (check : Bool) (atTime : Option AtTime) (confirmed : Bool)
      (confirmTimeoutMin : Option Nat) (log : Option Str) (sync : Option Bool)
  deriving DecidableEq, Repr

/-- a request as found on the wire; `Option` = element absent / present -/
inductive Request where
  | get (filter : Option FilterType)
  | getConfig (source : Endpoint) (filter : Option FilterType)
  | editConfig (target : Endpoint) (defaultOp : Option DefaultOp) (errorOpt : Option ErrorOpt)
      (testOpt : Option TestOpt) (content : Content)
  | copyConfig (target : Endpoint) (source : Endpoint)
  | deleteConfig (target : Endpoint)
  | lock (target : Endpoint)
  | unlock (target : Endpoint)
  | killSession (sessionId : Nat)
  | commit (confirmed : Bool) (confirmTimeout : Option Nat) (persist : Option Str) (persistId : Option Str)
  | cancelCommit (persistId : Option Str)
  | discardChanges
  | validate (source : Endpoint)
  | closeSession
  | junos (r : JunosRequest)
  deriving DecidableEq, Repr

inductive Requirement where
  /-- the capability must be advertised -/
  | cap (c : Capability)
  /-- at least one of them (several versions of one capability) -/
  | anyOf (cs : List Capability)
  /-- some advertised `:url:1.0?scheme=…` capability lists this scheme -/
  | urlScheme (s : Str)
  /-- RFC 6241 does not allow this under any capability -/
  | never
  deriving DecidableEq, Repr

def Requirement.check (q : Requirement) (caps : List Capability) : Bool :=
  match q with
  | .cap c => caps.contains c
  | .anyOf cs => cs.any fun c => caps.contains c
  | .urlScheme s => caps.any fun
      | .url schemes => schemes.contains s
      | _ => false
  | .never => false

/-- a requirement together with the token naming what needs it (violation class) -/
abbrev Labelled := String × Requirement

def validateAny : Requirement := .anyOf [.validate10, .validate11]
def confirmedAny : Requirement := .anyOf [.confirmedCommit10, .confirmedCommit11]

/-! ### per parameter -/

/-- 8.9 -/
def filterReqs (op : String) : Option FilterType → List Labelled
  | some .xpath => [(op ++ "-xpath-unchecked", .cap .xpath)]
  | _ => []

/-- `<source>` of get-config: a datastore only (7.1); 8.3.5.2, 8.7.5.1 -/
def getConfigSourceReqs : Endpoint → List Labelled
  | .ds .running => []
  | .ds .candidate => [("get-config-source-candidate", .cap .candidate)]
  | .ds .startup => [("get-config-source-startup", .cap .startup)]
  | .config => [("get-config-source-config", .never)]
  | .url _ => [("get-config-source-url", .never)]

/-- `<source>` of copy-config and validate: datastore, inline `<config>`, or URL (8.8.5) -/
def sourceReqs (op : String) : Endpoint → List Labelled
  | .ds .running => []
  | .ds .candidate => [(op ++ "-source-candidate", .cap .candidate)]
  | .ds .startup => [(op ++ "-source-startup", .cap .startup)]
  | .config => []
  | .url s => [(op ++ "-source-url", .urlScheme s)]

/-- `<target>` of edit-config: running (8.2) or candidate (8.3) — nothing else (7.2; not in the
    table of 8.7.5.1; YANG `edit-config/target` has exactly these two leaves) -/
def editTargetReqs : Endpoint → List Labelled
  | .ds .running => [("edit-config-target-running", .cap .writableRunning)]
  | .ds .candidate => [("edit-config-target-candidate", .cap .candidate)]
  | .ds .startup => [("edit-config-startup-target", .never)]
  | .config => [("edit-config-target-config", .never)]
  | .url _ => [("edit-config-target-url", .never)]

/-- `<target>` of copy-config: 8.2, 8.3.5.2, 8.7.5.1, 8.8.5.2 -/
def copyTargetReqs : Endpoint → List Labelled
  | .ds .running => [("copy-config-target-running", .cap .writableRunning)]
  | .ds .candidate => [("copy-config-target-candidate", .cap .candidate)]
  | .ds .startup => [("copy-config-target-startup", .cap .startup)]
  | .config => [("copy-config-target-config", .never)]
  | .url s => [("copy-config-target-url", .urlScheme s)]

/-- `<target>` of delete-config: 7.4 forbids running; 8.7.5.1 adds startup, 8.8.5.3 adds URLs;
    the candidate capability (8.3.5) does not list delete-config and the YANG choice has only
    `startup` and `url` -/
def deleteTargetReqs : Endpoint → List Labelled
  | .ds .running => [("delete-config-running-target", .never)]
  | .ds .candidate => [("delete-config-candidate-target", .never)]
  | .ds .startup => [("delete-config-target-startup", .cap .startup)]
  | .config => [("delete-config-target-config", .never)]
  | .url s => [("delete-config-target-url", .urlScheme s)]

/-- `<target>` of lock / unlock: 7.5, 8.3.5.3, 8.7.5.1 -/
def lockTargetReqs (op : String) : Endpoint → List Labelled
  | .ds .running => []
  | .ds .candidate => [(op ++ "-target-candidate", .cap .candidate)]
  | .ds .startup => [(op ++ "-target-startup", .cap .startup)]
  | .config => [(op ++ "-target-config", .never)]
  | .url _ => [(op ++ "-target-url", .never)]

/-- 8.5 -/
def errorOptReqs : Option ErrorOpt → List Labelled
  | some .rollbackOnError => [("edit-config-rollback-on-error", .cap .rollbackOnError)]
  | _ => []

/-- 8.6.4.1 (and RFC 4741 8.6 for version 1.0) -/
def testOptReqs : Option TestOpt → List Labelled
  | none => []
  | some .testOnly => [("edit-config-test-only", .cap .validate11)]
  | some _ => [("edit-config-test-option", validateAny)]

/-- 8.8.5.1 -/
def contentReqs : Content → List Labelled
  | .config => []
  | .url s => [("edit-config-url", .urlScheme s)]

/-- 8.4.5.1 -/
def commitParamReqs (confirmed : Bool) (timeout : Option Nat) (persist persistId : Option Str) :
    List Labelled :=
  (if confirmed then [("commit-confirmed", confirmedAny)] else [])
  ++ (if timeout.isSome then [("commit-confirm-timeout", confirmedAny)] else [])
  ++ (if persist.isSome then [("commit-persist", .cap .confirmedCommit11)] else [])
  ++ (if persistId.isSome then [("commit-persist-id", .cap .confirmedCommit11)] else [])

/-! ### the table -/

def requiresL : Request → List Labelled
  | .get f => filterReqs "get" f
  | .getConfig s f => getConfigSourceReqs s ++ filterReqs "get-config" f
  | .editConfig t _ e to c => editTargetReqs t ++ errorOptReqs e ++ testOptReqs to ++ contentReqs c
  | .copyConfig t s => copyTargetReqs t ++ sourceReqs "copy-config" s
  | .deleteConfig t => deleteTargetReqs t
  | .lock t => lockTargetReqs "lock" t
  | .unlock t => lockTargetReqs "unlock" t
  | .killSession _ => []
  | .commit c t p pid => ("commit", .cap .candidate) :: commitParamReqs c t p pid
  | .cancelCommit _ => [("cancel-commit", .cap .confirmedCommit11)]
  | .discardChanges => [("discard-changes", .cap .candidate)]
  | .validate s => ("validate", validateAny) :: sourceReqs "validate" s
  | .closeSession => []
  | .junos _ => [("junos-operation", .cap .junos)]

def requires (r : Request) : List Requirement := (requiresL r).map (·.2)

/-- the request is permitted by the advertised capabilities -/
def permitted (caps : List Capability) (r : Request) : Bool :=
  (requires r).all (·.check caps)

/-- first violated entry of the table, if any (its label is the violation class) -/
def firstViolation (caps : List Capability) (r : Request) : Option String :=
  ((requiresL r).find? fun lq => !lq.2.check caps).map (·.1)

end Rfc
