import Bgpfu.Model.Framing
/-
Model of the serialisation side of the NETCONF client (property C10): what bytes a request is.

  netconf/src/message/mod.rs:38-44            ClientMsg::to_xml      -> `toWire` / `send`
  netconf/src/message/rpc/mod.rs:55-63        Request::write_xml     -> `request`
  netconf/src/message/hello.rs:110-117        ClientHello::write_xml -> `hello`
  netconf/src/capabilities.rs:80-91,220-227   Capabilities/Capability::write_xml
  netconf/src/message/rpc/operation/*.rs      every `write_xml`      -> `build`
  netconf/src/message/rpc/operation/junos/*.rs
  junos-agent/src/policies/load.rs:55-170     Update / Differences / write_route_filter -> `updateTree`
  quick-xml 0.31 escapei.rs:72-74 (`escape`), events/attributes.rs:158-166, events/mod.rs:241-252,700-702,
  writer.rs:370-417 (`write_text_content`, `write_empty`, `write_inner_content`)

Bytes, not characters: quick-xml's `escape` works on the UTF-8 bytes and only ever touches ASCII
bytes, so a value is a `List Nat` (every Rust `String` is one; non-ASCII text is bytes >= 128 that
pass through). This lets the theorems talk about the same `marker` / `find` as the framing model.

Every element written by the code has one of four shapes (there is no mixed content anywhere):
  `write_empty`                                  <n a="v"/>                  XNode.empty
  `write_text_content(BytesText::new(v))`        <n a="v">escape v</n>       XNode.text   (escaped leaf)
  `write_inner_content(|w| w.write_all(r))`      <n a="v">r</n>              XNode.raw    (raw leaf)
  `write_inner_content(|w| children…)`           <n a="v">children</n>       XNode.elem
Attribute values are always escaped leaves (`with_attribute((k, v))` escapes `v`).

`Cfg` selects, per defect, the code as it is in /repo (`Cfg.pinned`) or as repaired (`Cfg.fixed`):
  payloadEsc : text / JSON payloads of <load-configuration> written with `write_text_content`
               (pinned: `write_all`, defect D7)
  wsRefs     : TAB/LF/CR in attribute values and CR in text written as character references
               (pinned: written literally, so a conforming parser normalises them away, defect D17)
  guard      : `to_xml` refuses a body that contains the end-of-message marker
               (pinned: no check, so a caller-supplied fragment can inject a delimiter, defect D18)
  charGuard  : `to_xml` refuses a message containing a character outside the `Char` production of
               XML 1.0 (pinned: sent as it is — a document no conforming parser accepts, defect D19)
-/
namespace Writers
open Framing (marker find)

/- `b!"rpc"` = the UTF-8 bytes of the string literal, as a literal list (so that the kernel can
compute with names). -/
open Lean in
macro:max "b!" s:str : term => do
  let bytes := s.getString.toUTF8.toList
  let elems : Array (TSyntax `term) := (bytes.map fun b => Syntax.mkNumLit (toString b.toNat)).toArray
  `(([$elems,*] : List Nat))

structure Cfg where
  payloadEsc : Bool
  wsRefs : Bool
  guard : Bool
  charGuard : Bool
  deriving Repr, DecidableEq

def Cfg.pinned : Cfg := { payloadEsc := false, wsRefs := false, guard := false, charGuard := false }
def Cfg.fixed : Cfg := { payloadEsc := true, wsRefs := true, guard := true, charGuard := true }

/-! ### quick-xml `escape` -/

/-- escapei.rs:72-74,98-137: `<` `>` `&` `'` `"` become the predefined entity references. -/
def escByte (b : Nat) : List Nat :=
  if b = 60 then b!"&lt;"
  else if b = 62 then b!"&gt;"
  else if b = 38 then b!"&amp;"
  else if b = 39 then b!"&apos;"
  else if b = 34 then b!"&quot;"
  else [b]

def escape (s : List Nat) : List Nat := s.flatMap escByte

/-- text content; `ws` = repaired variant that also writes CR as `&#13;` -/
def escTextByte (ws : Bool) (b : Nat) : List Nat :=
  if ws && b == 13 then b!"&#13;" else escByte b

def escText (ws : Bool) (s : List Nat) : List Nat := s.flatMap (escTextByte ws)

/-- attribute value; `ws` = repaired variant that also writes TAB/LF/CR as character references -/
def escAttrByte (ws : Bool) (b : Nat) : List Nat :=
  if ws && b == 9 then b!"&#9;"
  else if ws && b == 10 then b!"&#10;"
  else if ws && b == 13 then b!"&#13;"
  else escByte b

def escAttr (ws : Bool) (s : List Nat) : List Nat := s.flatMap (escAttrByte ws)

/-! ### what a conforming XML 1.0 parser extracts from a span of character data / an attribute value -/

def isXmlChar (n : Nat) : Bool :=
  n == 9 || n == 10 || n == 13 || (32 ≤ n && n ≤ 55295) || (57344 ≤ n && n ≤ 65533) || (65536 ≤ n && n ≤ 1114111)

def utf8 (n : Nat) : List Nat :=
  if n < 128 then [n]
  else if n < 2048 then [192 + n / 64, 128 + n % 64]
  else if n < 65536 then [224 + n / 4096, 128 + n / 64 % 64, 128 + n % 64]
  else [240 + n / 262144, 128 + n / 4096 % 64, 128 + n / 64 % 64, 128 + n % 64]

def decVal : List Nat → Option Nat → Option Nat
  | [], acc => acc
  | d :: ds, acc =>
    if 48 ≤ d ∧ d ≤ 57 then decVal ds (some (acc.getD 0 * 10 + (d - 48))) else none

def hexVal : List Nat → Option Nat → Option Nat
  | [], acc => acc
  | d :: ds, acc =>
    if 48 ≤ d ∧ d ≤ 57 then hexVal ds (some (acc.getD 0 * 16 + (d - 48)))
    else if 97 ≤ d ∧ d ≤ 102 then hexVal ds (some (acc.getD 0 * 16 + (d - 87)))
    else if 65 ≤ d ∧ d ≤ 70 then hexVal ds (some (acc.getD 0 * 16 + (d - 55)))
    else none

/-- XML 1.0 §4.1 / §4.6: the five predefined entities and numeric character references -/
def decodeRef (name : List Nat) : Option (List Nat) :=
  if name = b!"lt" then some [60]
  else if name = b!"gt" then some [62]
  else if name = b!"amp" then some [38]
  else if name = b!"apos" then some [39]
  else if name = b!"quot" then some [34]
  else match name with
    | 35 :: 120 :: ds => (hexVal ds none).bind fun n => if isXmlChar n then some (utf8 n) else none
    | 35 :: ds => (decVal ds none).bind fun n => if isXmlChar n then some (utf8 n) else none
    | _ => none

/-- §2.11 end-of-line handling: CR LF and lone CR become LF before anything else is looked at -/
def eol : List Nat → List Nat
  | [] => []
  | 13 :: 10 :: r => 10 :: eol r
  | 13 :: r => 10 :: eol r
  | c :: r => c :: eol r

/-- Reference expansion over a span. `attr = true` additionally applies §3.3.3 attribute-value
normalisation (a literal TAB/LF/CR becomes a space; characters coming from references are kept).
State: `none` = in character data, `some nm` = inside a reference, `nm` = reversed name so far.
`none` result = not well-formed (`<` or an unknown / unterminated reference). -/
def unesc (attr : Bool) : Option (List Nat) → List Nat → Option (List Nat)
  | none, [] => some []
  | some _, [] => none
  | none, c :: r =>
    if c = 38 then unesc attr (some []) r
    else if c = 60 then none
    else if attr && (c == 9 || c == 10 || c == 13) then (unesc attr none r).map (32 :: ·)
    else (unesc attr none r).map (c :: ·)
  | some nm, c :: r =>
    if c = 59 then (decodeRef nm.reverse).bind fun bs => (unesc attr none r).map (bs ++ ·)
    else unesc attr (some (c :: nm)) r

/-- reference expansion alone (what `unescape` means in the theorems) -/
def unescape (s : List Nat) : Option (List Nat) := unesc false none s
/-- the value a conforming parser reports for the character data span `s` -/
def parseText (s : List Nat) : Option (List Nat) := unesc false none (eol s)
/-- the value a conforming parser reports for the attribute value literal `s` (without the quotes) -/
def parseAttr (s : List Nat) : Option (List Nat) := unesc true none (eol s)

/-! ### element trees and rendering -/

structure Attr where
  name : List Nat
  value : List Nat
  deriving Repr, DecidableEq

inductive XNode where
  | empty (name : List Nat) (attrs : List Attr)
  | text (name : List Nat) (attrs : List Attr) (v : List Nat)
  | raw (name : List Nat) (attrs : List Attr) (r : List Nat)
  | elem (name : List Nat) (attrs : List Attr) (kids : List XNode)
  deriving Repr

/-- events/mod.rs:241-252 `push_attribute`: ` key="value"` -/
def attrBytes (ws : Bool) (a : Attr) : List Nat := 32 :: a.name ++ 61 :: 34 :: escAttr ws a.value ++ [34]
def attrsBytes (ws : Bool) (as : List Attr) : List Nat := as.flatMap (attrBytes ws)
def openTag (ws : Bool) (n : List Nat) (as : List Attr) : List Nat := 60 :: n ++ attrsBytes ws as ++ [62]
def emptyTag (ws : Bool) (n : List Nat) (as : List Attr) : List Nat := 60 :: n ++ attrsBytes ws as ++ [47, 62]
def closeTag (n : List Nat) : List Nat := 60 :: 47 :: n ++ [62]

mutual
def render (ws : Bool) : XNode → List Nat
  | .empty n as => emptyTag ws n as
  | .text n as v => openTag ws n as ++ escText ws v ++ closeTag n
  | .raw n as r => openTag ws n as ++ r ++ closeTag n
  | .elem n as ks => openTag ws n as ++ renderL ws ks ++ closeTag n
def renderL (ws : Bool) : List XNode → List Nat
  | [] => []
  | k :: ks => render ws k ++ renderL ws ks
end

/-- message/mod.rs:38-44 `to_xml`: body, then MARKER once -/
def toWire (ws : Bool) (m : XNode) : List Nat := render ws m ++ marker

/-- XML 1.0 §2.2 `Char` on UTF-8 bytes: no C0 control other than TAB, LF, CR … -/
def c0Ok (b : Nat) : Bool := b == 9 || b == 10 || b == 13 || 32 ≤ b

/-- … and neither U+FFFE nor U+FFFF (`EF BF BE`, `EF BF BF`; in well-formed UTF-8 these three
bytes in a row can only be that character). Surrogates cannot occur in a Rust `String`. -/
def charsOk : List Nat → Bool
  | [] => true
  | 239 :: 191 :: 190 :: _ => false
  | 239 :: 191 :: 191 :: _ => false
  | b :: rest => c0Ok b && charsOk rest

/-- `to_xml` as a partial function: the repaired variant refuses a body containing the marker,
and a message containing a character that XML 1.0 cannot represent -/
def send (c : Cfg) (m : XNode) : Option (List Nat) :=
  if c.guard && (find marker (render c.wsRefs m)).isSome then none
  else if c.charGuard && !charsOk (toWire c.wsRefs m) then none
  else some (toWire c.wsRefs m)

/-! ### leaves of a tree (for the statements) -/

mutual
def rawLeaves : XNode → List (List Nat)
  | .empty _ _ => []
  | .text _ _ _ => []
  | .raw _ _ r => [r]
  | .elem _ _ ks => rawLeavesL ks
def rawLeavesL : List XNode → List (List Nat)
  | [] => []
  | k :: ks => rawLeaves k ++ rawLeavesL ks
end

mutual
def textLeaves : XNode → List (List Nat)
  | .empty _ _ => []
  | .text _ _ v => [v]
  | .raw _ _ _ => []
  | .elem _ _ ks => textLeavesL ks
def textLeavesL : List XNode → List (List Nat)
  | [] => []
  | k :: ks => textLeaves k ++ textLeavesL ks
end

def XNode.attrs : XNode → List Attr
  | .empty _ as | .text _ as _ | .raw _ as _ | .elem _ as _ => as

mutual
def attrLeaves : XNode → List (List Nat)
  | .empty _ as => as.map (·.value)
  | .text _ as _ => as.map (·.value)
  | .raw _ as _ => as.map (·.value)
  | .elem _ as ks => as.map (·.value) ++ attrLeavesL ks
def attrLeavesL : List XNode → List (List Nat)
  | [] => []
  | k :: ks => attrLeaves k ++ attrLeavesL ks
end

/-! ### decimal numbers (`usize::to_string`, `u32::to_string`) -/

def decAux : Nat → Nat → List Nat → List Nat
  | 0, _, acc => acc
  | fuel + 1, n, acc => if n < 10 then (48 + n) :: acc else decAux fuel (n / 10) ((48 + n % 10) :: acc)
def dec (n : Nat) : List Nat := decAux (n + 1) n []

/-! ### operations -/

inductive Datastore | running | candidate | startup
  deriving Repr, DecidableEq
/-- operation/mod.rs:167-173 `as_str`, 176-181 `write_xml` -/
def Datastore.node : Datastore → XNode
  | .running => .empty b!"running" []
  | .candidate => .empty b!"candidate" []
  | .startup => .empty b!"startup" []

/-- operation/mod.rs:423-428 `Url::write_xml` -/
def urlNode (u : List Nat) : XNode := .text b!"url" [] u

inductive Filter | subtree (f : List Nat) | xpath (select : List Nat)
  deriving Repr
/-- operation/mod.rs:254-272: subtree written with `write_all`, xpath as the `select` attribute -/
def Filter.node : Filter → XNode
  | .subtree f => .raw b!"filter" [⟨b!"type", b!"subtree"⟩] f
  | .xpath s => .empty b!"filter" [⟨b!"type", b!"xpath"⟩, ⟨b!"select", s⟩]

def optNode {α} (f : α → XNode) : Option α → List XNode
  | none => []
  | some a => [f a]

/-- operation/mod.rs:183-207 `Source` (copy-config, validate); `Source::Url` has no builder -/
inductive Source | datastore (d : Datastore) | config (r : List Nat) | url (u : List Nat)
  deriving Repr
def Source.node : Source → XNode
  | .datastore d => d.node
  | .config r => .raw b!"config" [] r
  | .url u => urlNode u

/-- edit_config.rs:158-178; `D = Opaque` (operation/mod.rs:300-308: `write_all`) or any element tree -/
inductive EditSrc | config (r : List Nat) | configTree (t : XNode) | url (u : List Nat)
  deriving Repr
def EditSrc.node : EditSrc → XNode
  | .config r => .raw b!"config" [] r
  | .configTree t => .elem b!"config" [] [t]
  | .url u => urlNode u

inductive DefaultOperation | merge | replace | none deriving Repr, DecidableEq
inductive TestOption | testThenSet | set | testOnly deriving Repr, DecidableEq
inductive ErrorOption | stopOnError | continueOnError | rollbackOnError deriving Repr, DecidableEq
def DefaultOperation.str : DefaultOperation → List Nat
  | .merge => b!"merge" | .replace => b!"replace" | .none => b!"none"
def TestOption.str : TestOption → List Nat
  | .testThenSet => b!"test-then-set" | .set => b!"set" | .testOnly => b!"test-only"
def ErrorOption.str : ErrorOption → List Nat
  | .stopOnError => b!"stop-on-error" | .continueOnError => b!"continue-on-error" | .rollbackOnError => b!"rollback-on-error"

/-- delete_config.rs:96-109 -/
inductive DelTarget | datastore (d : Datastore) | url (u : List Nat) deriving Repr

/-- open_configuration.rs:42-88 -/
inductive OpenTarget | priv | ephemeral | named (n : List Nat) deriving Repr

inductive Fmt | text | xml | json deriving Repr, DecidableEq
inductive Act | merge | override | update | replace | set deriving Repr, DecidableEq
def Fmt.str : Fmt → List Nat | .text => b!"text" | .xml => b!"xml" | .json => b!"json"
def Act.str : Act → List Nat
  | .merge => b!"merge" | .override => b!"override" | .update => b!"update" | .replace => b!"replace" | .set => b!"set"
def Fmt.attr (f : Fmt) : Attr := ⟨b!"format", f.str⟩
def Act.attr (a : Act) : Attr := ⟨b!"action", a.str⟩
/-- load_configuration.rs:160-196,264-318: `Action::TAG` (default `Format::DEFAULT_TAG`; `Set` overrides) -/
def dataTag (f : Fmt) (a : Act) : List Nat :=
  if a = .set then b!"configuration-set"
  else match f with
    | .text => b!"configuration-text" | .xml => b!"configuration" | .json => b!"configuration-json"

/-- load_configuration.rs:55-158. `rollback` / `revision` / `url` have no public constructor. -/
inductive LoadSrc
  | rescue
  | rollback (n : Nat)
  | revision (id : List Nat)
  | url (u : List Nat) (f : Fmt) (a : Act)
  | cfgText (payload : List Nat) (a : Act)
  | cfgJson (payload : List Nat) (a : Act)
  | cfgXmlRaw (r : List Nat) (a : Act)
  | cfgXmlTree (t : XNode) (a : Act)
  deriving Repr

/-- load_configuration.rs:198-255 `ConfigData::write_data` for `Text` / `Json`: `write_all` (pinned) -/
def payloadNode (c : Cfg) (tag : List Nat) (p : List Nat) : XNode :=
  if c.payloadEsc then .text tag [] p else .raw tag [] p

def LoadSrc.node (c : Cfg) : LoadSrc → XNode
  | .rescue => .empty b!"load-configuration" [⟨b!"rescue", b!"rescue"⟩]
  | .rollback n => .empty b!"load-configuration" [⟨b!"rollback", dec n⟩]
  | .revision id => .empty b!"load-configuration" [⟨b!"configuration-revision", id⟩]
  | .url u f a => .empty b!"load-configuration" [⟨b!"url", u⟩, f.attr, a.attr]
  | .cfgText p a => .elem b!"load-configuration" [Fmt.text.attr, a.attr] [payloadNode c (dataTag .text a) p]
  | .cfgJson p a => .elem b!"load-configuration" [Fmt.json.attr, a.attr] [payloadNode c (dataTag .json a) p]
  | .cfgXmlRaw r a => .raw b!"load-configuration" [Fmt.xml.attr, a.attr] r
  | .cfgXmlTree t a => .elem b!"load-configuration" [Fmt.xml.attr, a.attr] [t]

inductive Op where
  | get (f : Option Filter)
  | getConfig (src : Datastore) (f : Option Filter)
  | editConfig (tgt : Datastore) (d : DefaultOperation) (e : ErrorOption) (t : TestOption) (src : EditSrc)
  | copyConfig (tgt : Datastore) (src : Source)
  | deleteConfig (tgt : DelTarget)
  | lock (tgt : Datastore)
  | unlock (tgt : Datastore)
  | killSession (id : Nat)
  | commit (confirmed : Bool) (timeout : Nat) (persist persistId : Option (List Nat))
  | cancelCommit (persistId : Option (List Nat))
  | discardChanges
  | validate (src : Source)
  | closeSession
  | closeConfiguration
  | lockConfiguration
  | unlockConfiguration
  | openConfiguration (t : OpenTarget)
  | commitConfiguration (check : Bool) (atTime : Option (List Nat)) (confirm : Option Nat)
      (log : Option (List Nat)) (sync : Option Bool)
  | loadConfiguration (src : LoadSrc)
  deriving Repr

/-- the element written by `Operation::write_xml` -/
def build (c : Cfg) : Op → XNode
  -- get.rs:22-34
  | .get f => .elem b!"get" [] (optNode Filter.node f)
  -- get_config.rs:46-62
  | .getConfig s f => .elem b!"get-config" [] (.elem b!"source" [] [s.node] :: optNode Filter.node f)
  -- edit_config.rs:35-66
  | .editConfig t d e o s =>
    .elem b!"edit-config" []
      ([.elem b!"target" [] [t.node]]
        ++ (if d ≠ .merge then [.text b!"default-operation" [] d.str] else [])
        ++ (if e ≠ .stopOnError then [.text b!"error-option" [] e.str] else [])
        ++ (if o ≠ .testThenSet then [.text b!"test-option" [] o.str] else [])
        ++ [s.node])
  -- copy_config.rs:22-37
  | .copyConfig t s => .elem b!"copy-config" [] [.elem b!"target" [] [t.node], .elem b!"source" [] [s.node]]
  -- delete_config.rs:22-34
  | .deleteConfig t =>
    .elem b!"delete-config" [] [.elem b!"target" [] [match t with | .datastore d => d.node | .url u => urlNode u]]
  -- lock.rs:22-34,48-60
  | .lock t => .elem b!"lock" [] [.elem b!"target" [] [t.node]]
  | .unlock t => .elem b!"unlock" [] [.elem b!"target" [] [t.node]]
  -- kill_session.rs:27-39
  | .killSession id => .elem b!"kill-session" [] [.text b!"session-id" [] (dec id)]
  -- commit.rs:30-62
  | .commit confirmed timeout persist persistId =>
    if confirmed then
      .elem b!"commit" []
        ([.empty b!"confirmed" []]
          ++ (if timeout ≠ 600 then [.text b!"confirm-timeout" [] (dec timeout)] else [])
          ++ optNode (.text b!"persist" []) persist)
    else match persistId with
      | some tok => .elem b!"commit" [] [.text b!"persist-id" [] tok]
      | none => .empty b!"commit" []
  -- cancel_commit.rs:27-43
  | .cancelCommit pid =>
    match pid with
    | some tok => .elem b!"cancel-commit" [] [.text b!"persist-id" [] tok]
    | none => .empty b!"cancel-commit" []
  -- discard_changes.rs:27-32
  | .discardChanges => .empty b!"discard-changes" []
  -- validate.rs:26-38
  | .validate s => .elem b!"validate" [] [.elem b!"source" [] [s.node]]
  -- close_session.rs:18-23
  | .closeSession => .empty b!"close-session" []
  -- junos/mod.rs `trivial_ops!`
  | .closeConfiguration => .empty b!"close-configuration" []
  | .lockConfiguration => .empty b!"lock-configuration" []
  | .unlockConfiguration => .empty b!"unlock-configuration" []
  -- open_configuration.rs:50-88
  | .openConfiguration t =>
    .elem b!"open-configuration" []
      [match t with
        | .priv => .empty b!"private" []
        | .ephemeral => .empty b!"ephemeral" []
        | .named n => .text b!"ephemeral-instance" [] n]
  -- commit_configuration.rs:42-163 (`Timeout::minutes` = ceil(secs / 60), operation/mod.rs:394-396)
  | .commitConfiguration check atTime confirm log sync =>
    if check || atTime.isSome || confirm.isSome || log.isSome || sync.isSome then
      .elem b!"commit-configuration" []
        ((if check then [.empty b!"check" []] else [])
          ++ optNode (.text b!"at-time" []) atTime
          ++ (match confirm with
              | none => []
              | some secs =>
                [.empty b!"confirmed" []]
                  ++ (if secs ≠ 600 then [.text b!"confirm-timeout" [] (dec ((secs + 59) / 60))] else []))
          ++ optNode (.text b!"log" []) log
          ++ (match sync with
              | none => []
              | some force => [.empty (if force then b!"force-synchronize" else b!"synchronize") []]))
    else .empty b!"commit-configuration" []
  -- load_configuration.rs:44-52
  | .loadConfiguration s => s.node c

/-- rpc/mod.rs:55-63 `Request::write_xml` -/
def request (c : Cfg) (id : Nat) (op : Op) : XNode :=
  .elem b!"rpc" [⟨b!"message-id", dec id⟩] [build c op]

/-- hello.rs:110-117, capabilities.rs:80-91,220-227 (`caps` in the iteration order of the HashSet) -/
def hello (caps : List (List Nat)) : XNode :=
  .elem b!"hello" [] [.elem b!"capabilities" [] (caps.map (.text b!"capability" []))]

/-! ### the agent's `<load-configuration>` payload (junos-agent/src/policies/load.rs) -/

structure Range where
  addr : List Nat
  lo : Nat
  hi : Nat
  deriving Repr, DecidableEq

/-- `Differences<'_, A>`; `old`/`new` in the iteration order of the HashSets -/
structure Diff where
  family : List Nat
  old : Option (List Range)
  new : List Range
  deriving Repr

/-- load.rs:149-170 `write_route_filter` -/
def routeFilter (r : Range) (delete : Bool) : XNode :=
  .elem b!"route-filter" (if delete then [⟨b!"delete", b!"delete"⟩] else [])
    [.text b!"address" [] r.addr,
     .text b!"prefix-length-range" [] (b!"/" ++ dec r.lo ++ b!"-/" ++ dec r.hi)]

/-- load.rs:95-101: the whole term is deleted when there was something and nothing is left -/
def Diff.del (d : Diff) : Bool :=
  match d.old with
  | some old => !old.isEmpty && d.new.isEmpty
  | none => false

/-- load.rs:92-138 `Differences::write_xml` -/
def Diff.node (d : Diff) : XNode :=
  .elem b!"term" (if d.del then [⟨b!"delete", b!"delete"⟩] else [])
    ([.text b!"name" [] d.family]
      ++ (if d.new.isEmpty then []
          else
            [.elem b!"from" []
              ([.text b!"family" [] d.family]
                ++ (match d.old with
                    | none => d.new.map (routeFilter · false)
                    | some old =>
                      (old.filter (fun r => !d.new.contains r)).map (routeFilter · true)
                        ++ (d.new.filter (fun r => !old.contains r)).map (routeFilter · false))),
             .elem b!"then" [] [.empty b!"accept" []]]))

/-- load.rs: a family with nothing installed and nothing to install writes nothing at all
(since the `fix:` commit; the pinned snapshot wrote an empty `<term>`) -/
def Diff.skip (d : Diff) : Bool :=
  d.new.isEmpty && (match d.old with | none => true | some old => old.isEmpty)

def Diff.nodes (d : Diff) : List XNode := if d.skip then [] else [d.node]

inductive Update
  | delete (name : List Nat)
  | update (name : List Nat) (now : List Nat) (expr : List Nat) (v4 v6 : Diff)
  deriving Repr

/-- load.rs:24-90 `Update::write_xml` / `policy_stmt_elem` -/
def updateTree : Update → XNode
  | .delete name =>
    .elem b!"configuration" [] [.elem b!"policy-options" []
      [.elem b!"policy-statement" [⟨b!"delete", b!"delete"⟩] [.text b!"name" [] name]]]
  | .update name now expr v4 v6 =>
    .elem b!"configuration" [] [.elem b!"policy-options" []
      [.elem b!"policy-statement"
        [⟨b!"junos:comment", b!"Last updated at " ++ now ++ b!" from mp-filter expression " ++ expr⟩]
        ([.text b!"name" [] name] ++ v4.nodes ++ v6.nodes ++ [.elem b!"then" [] [.empty b!"reject" []]])]]

end Writers
