import Bgpfu.Model.Rpsl
/-
Model of
  * an IRR database and the IRRd query protocol as `irrc` 0.1.0 speaks it (`serve`; this function IS
    the fake IRRd of the correspondence run: every response body the fake sends is computed here);
  * `bgpfu::RpslEvaluator` (lib/src/query.rs): the connection slot `conn : Option Connection`
    (`with_connection`, :55-64), the four resolvers (:115-231) and the PeerAS resolver (:233-240),
    on top of irrc's `Pipeline` (push = write the query; `pop`/`responses()` = read the next
    response; `Drop` = `clear()` = read and discard whatever is still outstanding);
  * `Policies<Candidate>::evaluate` (junos-agent/src/policies/eval.rs:16-57).
Only `Bgpfu.Model.Rpsl` is imported.

`Cfg` selects between the code as it is in /repo (`Cfg.pinned`) and the code with the three
proposed repairs (`Cfg.fixed`):
  peerAsErr : the PeerAS resolver returns `Err` instead of `unimplemented!()`
  catchPanic: `Candidate::evaluate` runs the evaluation under `catch_unwind`; a panic (the rpsl
              crate's `todo!()` for AS-path regexps / attribute matches) fails that candidate only
  rsRange   : route-set members are parsed as `<prefix><range-operator>` instead of `Prefix<Any>`
-/
namespace Irr
open Rpsl

structure Cfg where
  peerAsErr : Bool
  catchPanic : Bool
  rsRange : Bool
  deriving DecidableEq, Repr

def Cfg.pinned : Cfg := { peerAsErr := false, catchPanic := false, rsRange := false }
def Cfg.fixed : Cfg := { peerAsErr := true, catchPanic := true, rsRange := true }

/-! ### Database -/

/-- a member of a set object: a leaf or a reference to another set of the same class -/
inductive Mem (α : Type) where
  | leaf (x : α)
  | set (n : String)
  deriving DecidableEq, Repr

/-- set objects of one class: name ↦ `members:` (first entry for a name wins) -/
abbrev Graph (α : Type) := List (String × List (Mem α))

/-- leaves of a route-set: an address prefix with a range operator, or an AS number -/
inductive RsLeaf where
  | pfx (p : Pfx) (op : RangeOp)
  | asn (a : Nat)
  /-- a member word that is not an address prefix with a range operator at all (the IRR is not
  trusted to hold only well-formed objects); `k` selects one of a fixed list of such words -/
  | junk (k : Nat)
  deriving DecidableEq, Repr

/-- one `filter-set` object (several sources may hold one for the same key); `mpFilter = none`:
the object has no `mp-filter:` attribute (only `filter:`) -/
structure FsObj where
  mpFilter : Option Expr
  deriving DecidableEq, Repr

structure Db where
  /-- how the server answers a query whose result is empty: `D` (IRRd 4) or `C` -/
  emptyIsD : Bool
  asSets : Graph Nat
  routeSets : Graph RsLeaf
  /-- `route` / `route6` objects by origin AS (duplicates and several entries per AS allowed) -/
  routes : List (Nat × List Pfx)
  filterSets : List (String × List FsObj)
  deriving Repr

/-- Recursive expansion of set members by a visited-set closure (depth first, members in order).
Each step consumes one unit of `fuel`; `closureFuel` is enough for every input (lemma
`closure_fuel_irrelevant`), so the function is total and terminates although sets may be cyclic.
Unknown set names are skipped. -/
def closure {α : Type} (g : Graph α) : Nat → List (Mem α) → List String → List α
  | 0, _, _ => []
  | _ + 1, [], _ => []
  | f + 1, .leaf x :: rest, seen => x :: closure g f rest seen
  | f + 1, .set n :: rest, seen =>
    if n ∈ seen then closure g f rest seen
    else match g.lookup n with
      | none => closure g f rest seen
      | some ms => closure g f (ms ++ rest) (n :: seen)

/-- total size of the set objects not yet visited -/
def weight {α : Type} : Graph α → List String → Nat
  | [], _ => 0
  | e :: g, seen => (if e.1 ∈ seen then 0 else e.2.length + 1) + weight g seen

def closureFuel {α : Type} (g : Graph α) : Nat := weight g [] + 2

/-- all leaves reachable from set `n` -/
def expand {α : Type} (g : Graph α) (n : String) : List α :=
  closure g (closureFuel g) [.set n] []

def routesOf (db : Db) (a : Nat) : List Pfx :=
  (db.routes.filter fun e => e.1 == a).flatMap (·.2)

/-! ### Wire protocol -/

inductive Query where
  | asSetMembers (n : String)       -- `!i<as-set>,1`
  | routeSetMembers (n : String)    -- `!i<route-set>,1`
  | routes4 (a : Nat)               -- `!gAS<a>`
  | routes6 (a : Nat)               -- `!6AS<a>`
  | filterSet (n : String)          -- `!mfilter-set,<n>`
  deriving DecidableEq, Repr

/-- `D` / `E` / `F <msg>` -/
inductive ErrResp where
  | keyNotFound | keyNotUnique | other
  deriving DecidableEq, Repr

/-- one whitespace-separated word (`!i`, `!g`, `!6`) or one paragraph (`!m`) of response data -/
inductive Item where
  | asn (a : Nat)                     -- `AS65001`
  | member (p : Pfx) (op : RangeOp)   -- `192.0.2.0/24`, `10.0.0.0/8^+`
  | junk (k : Nat)                    -- a word that is no prefix range (`}<AS1>{`, `x`, `10.0.0.0/8^` …)
  | obj (o : FsObj)                   -- RPSL text of a filter-set object
  deriving DecidableEq, Repr

inductive Response where
  | data (items : List Item)    -- `A<len>\n<items>\nC\n`
  | empty                       -- `C\n`
  | err (e : ErrResp)
  deriving DecidableEq, Repr

def Response.items : Response → List Item
  | .data is => is
  | _ => []

def emptyResp (db : Db) : Response := if db.emptyIsD then .err .keyNotFound else .empty

def dataOr (db : Db) (items : List Item) : Response :=
  if items.isEmpty then emptyResp db else .data items

def rsLeafItems (db : Db) : RsLeaf → List Item
  | .pfx p op => [.member p op]
  | .asn a => (routesOf db a).map (.member · .none)   -- IRRd resolves AS members of route-sets itself
  | .junk k => [.junk k]

/-- the IRRd server: response to one query -/
def serve (db : Db) : Query → Response
  | .routes4 a => dataOr db (((routesOf db a).filter (·.fam == .v4)).map (.member · .none))
  | .routes6 a => dataOr db (((routesOf db a).filter (·.fam == .v6)).map (.member · .none))
  | .asSetMembers n =>
    match db.asSets.lookup n with
    | none => .err .keyNotFound
    | some _ => dataOr db ((expand db.asSets n).map .asn)
  | .routeSetMembers n =>
    match db.routeSets.lookup n with
    | none => .err .keyNotFound
    | some _ => dataOr db ((expand db.routeSets n).flatMap (rsLeafItems db))
  | .filterSet n =>
    match db.filterSets.lookup n with
    | none => .err .keyNotFound
    | some objs => dataOr db (objs.map .obj)

/-- which responses of one evaluation are replaced by an error -/
inductive Sel where
  | idx (i : Nat)        -- the i-th query written during the evaluation (0-based)
  | query (q : Query)    -- every occurrence of this query
  deriving DecidableEq, Repr

abbrev Faults := List (Sel × ErrResp)

structure Server where
  db : Db
  faults : Faults

def Sel.hits (i : Nat) (q : Query) : Sel → Bool
  | .idx j => j == i
  | .query q' => q' == q

def respond (sv : Server) (i : Nat) (q : Query) : Response :=
  match sv.faults.find? (fun f => f.1.hits i q) with
  | some f => .err f.2
  | none => serve sv.db q

/-! ### Connection and pipeline -/

/-- the TCP connection: responses the server has sent (or will send) for queries already written
that the client has not consumed yet, each tagged with the query it answers; number of queries
written during the current evaluation -/
structure Conn where
  unread : List (Query × Response)
  nq : Nat
  deriving Repr

/-- `RpslEvaluator { conn: Option<Connection> }` -/
structure Ev where
  conn : Option Conn
  deriving Repr

def Ev.fresh : Ev := { conn := some { unread := [], nq := 0 } }

/-- observable events: the fake IRRd's log (`sent`) and the client's attribution of each response it
consumes to the query at the head of its own queue (`recv clientQuery answeredQuery response`) -/
inductive Event where
  | sent (i : Nat) (q : Query) (r : Response)
  | recv (cq sq : Query) (r : Response)
  deriving Repr

/-- irrc `Pipeline`: borrows the connection; `queue` = queries written and not yet popped -/
structure Pipe where
  conn : Conn
  queue : List Query
  ev : List Event

def Pipe.new (c : Conn) : Pipe := { conn := c, queue := [], ev := [] }

/-- `Pipeline::push`: enqueue and write the query (the server's answer is now outstanding) -/
def push (sv : Server) (q : Query) (p : Pipe) : Pipe :=
  let r := respond sv p.conn.nq q
  { conn := { unread := p.conn.unread ++ [(q, r)], nq := p.conn.nq + 1 },
    queue := p.queue ++ [q],
    ev := p.ev ++ [.sent p.conn.nq q r] }

/-- successive pushes, in order -/
def pushAll (sv : Server) : List Query → Pipe → Pipe
  | [], p => p
  | q :: qs, p => pushAll sv qs (push sv q p)

/-- `Pipeline::pop`: dequeue the oldest query and read the next response off the wire -/
def pop (p : Pipe) : Option Response × Pipe :=
  match p.queue, p.conn.unread with
  | cq :: qs, (sq, r) :: us =>
    (some r, { conn := { p.conn with unread := us }, queue := qs, ev := p.ev ++ [.recv cq sq r] })
  | _, _ => (none, p)

/-- `n` successive pops (the `responses()` iterator run to its end when `n = queue.length`) -/
def popN : Nat → Pipe → List Response × Pipe
  | 0, p => ([], p)
  | n + 1, p =>
    match pop p with
    | (some r, p') => let (rs, p'') := popN n p'; (r :: rs, p'')
    | (none, p') => ([], p')

def responses (p : Pipe) : List Response × Pipe := popN p.queue.length p

/-- `Drop for Pipeline` = `clear()`: consume and discard every outstanding response -/
def Pipe.drop (p : Pipe) : Conn × List Event :=
  let p' := (responses p).2
  (p'.conn, p'.ev)

/-- `with_connection` (query.rs:55-64) -/
def withConn {α : Type} (f : Conn → Outcome α × Conn × List Event) : M Ev Event α := fun st =>
  match st.conn with
  | none => (.err .acquire, st, [])
  | some c =>
    match f c with
    | (o, c', ev) => (o, { conn := some c' }, ev)

def ErrResp.kind : ErrResp → ErrKind
  | .keyNotFound => .keyNotFound
  | .keyNotUnique => .keyNotUnique
  | .other => .other

/-! ### Resolvers -/

/-- `AutNum: FromStr` on one response word -/
def parseAutNum : Item → Option Nat
  | .asn a => some a
  | _ => none

/-- `Prefix<Any>: FromStr` on one response word (a word carrying a range operator does not parse);
`ranged = true`: the repaired route-set resolver, which parses `<prefix><op>` and applies `op` -/
def parseMember (ranged : Bool) : Item → Option Range
  | .member p .none => some (Range.ofPfx p)
  | .member p op => if ranged then memberRange op p else none
  | _ => none

/-- `collect_results(pipeline.responses::<Prefix<Any>>())` with `sink_error ≡ true`: error responses
and unparsable items are dropped, everything else is collected -/
def collect (ranged : Bool) (rs : List Response) : List Range :=
  rs.flatMap fun r => r.items.filterMap (parseMember ranged)

/-- query.rs:212-231 -/
def resolveAutNum (sv : Server) (a : Nat) : M Ev Event PSet := withConn fun c =>
  let p := pushAll sv [.routes4 a, .routes6 a] (Pipe.new c)
  match responses p with
  | (rs, p) =>
    match p.drop with
    | (c, ev) => (.ok (PSet.ofRanges (collect false rs)), c, ev)

/-- the follow-up queries `pipeline_from_initial`'s closure produces for one response item -/
def followUps (it : Item) : List Query :=
  match parseAutNum it with
  | some a => [.routes4 a, .routes6 a]
  | none => []     -- ParseItem error: sunk, no queries

/-- query.rs:162-189 with irrc `Pipeline::from_initial` (pipeline/mod.rs:37-70) -/
def resolveAsSet (sv : Server) (n : String) : M Ev Event PSet := withConn fun c =>
  let p := push sv (.asSetMembers n) (Pipe.new c)
  match pop p with
  | (none, p) => match p.drop with | (c, ev) => (.err .dequeue, c, ev)
  | (some (.err e), p) => match p.drop with | (c, ev) => (.err e.kind, c, ev)
  | (some r, p) =>
    -- each item's follow-up queries are written as soon as the item has been read
    let p := pushAll sv (r.items.flatMap followUps) p
    match responses p with
    | (rs, p) =>
      match p.drop with
      | (c, ev) => (.ok (PSet.ofRanges (collect false rs)), c, ev)

/-- query.rs:191-210 -/
def resolveRouteSet (cfg : Cfg) (sv : Server) (n : String) : M Ev Event PSet := withConn fun c =>
  let p := push sv (.routeSetMembers n) (Pipe.new c)
  match responses p with
  | (rs, p) =>
    match p.drop with
    | (c, ev) => (.ok (PSet.ofRanges (collect cfg.rsRange rs)), c, ev)

/-- the first response item that is a filter-set object carrying an `mp-filter:` -/
def firstMpFilter : List Item → Option Expr
  | [] => none
  | .obj o :: rest => match o.mpFilter with
    | some e => some e
    | none => firstMpFilter rest      -- Error::FindAttribute: sunk
  | _ :: rest => firstMpFilter rest

/-- query.rs:115-160: `find_map` over the response items stops at the first `mp-filter`; if there is
none (error response, no object, no such attribute) the result is `NOT ANY` -/
def resolveFilterSet (sv : Server) (n : String) : M Ev Event Expr := withConn fun c =>
  let p := push sv (.filterSet n) (Pipe.new c)
  match responses p with
  | (rs, p) =>
    match p.drop with
    | (c, ev) => (.ok ((firstMpFilter (rs.flatMap (·.items))).getD (.not .any)), c, ev)

/-- query.rs:233-240 -/
def resolvePeerAs (cfg : Cfg) : M Ev Event PSet := fun st =>
  if cfg.peerAsErr then (.err .unsupported, st, []) else (.panic .peerAs, st, [])

def resolvers (cfg : Cfg) (sv : Server) : Resolvers Ev Event :=
  { filterSet := resolveFilterSet sv
    asSet := resolveAsSet sv
    routeSet := resolveRouteSet cfg sv
    autNum := resolveAutNum sv
    peerAs := resolvePeerAs cfg }

/-- the relative query counter restarts with each evaluation (the fake's fault selectors are relative
to the evaluation) -/
def beginEval (st : Ev) : Ev := { conn := st.conn.map fun c => { c with nq := 0 } }

/-- `RpslEvaluator::evaluate` (query.rs:75-84) -/
def evaluate (cfg : Cfg) (db : Db) (fuel : Nat) (e : Expr) (faults : Faults) : M Ev Event PSet := fun st =>
  eval (resolvers cfg { db := db, faults := faults }) fuel e (beginEval st)

/-- a sequence of evaluations on one evaluator (a caught panic leaves the evaluator in use) -/
def evalSeq (cfg : Cfg) (db : Db) (fuel : Nat) :
    List (Expr × Faults) → Ev → List (Outcome PSet × List Event) × Ev
  | [], st => ([], st)
  | (e, f) :: rest, st =>
    match evaluate cfg db fuel e f st with
    | (o, st', ev) =>
      match evalSeq cfg db fuel rest st' with
      | (os, st'') => ((o, ev) :: os, st'')

/-! ### `Policies<Candidate>::evaluate` -/

abbrev Parts := (Nat → Nat → Bool) × (Nat → Nat → Bool)

inductive RunOutcome where
  /-- every candidate has an `Evaluated { ranges }` (`none`: evaluation failed, error logged) -/
  | done (outs : List (String × Option Parts))
  /-- the evaluation task panicked: `handle_task` fails, nothing is loaded -/
  | abort (k : PanicKind)
  | diverge

/-- eval.rs:16-57: all candidates on one evaluator, in map order -/
def evaluateAll (cfg : Cfg) (db : Db) (fuel : Nat) :
    List (String × Expr × Faults) → Ev → RunOutcome × Ev × List Event
  | [], st => (.done [], st, [])
  | (name, e, f) :: rest, st =>
    match evaluate cfg db fuel e f st with
    | (o, st', ev) =>
      let continue_ (r : Option Parts) : RunOutcome × Ev × List Event :=
        match evaluateAll cfg db fuel rest st' with
        | (.done outs, st'', ev') => (.done ((name, r) :: outs), st'', ev ++ ev')
        | (x, st'', ev') => (x, st'', ev ++ ev')
      match o with
      | .ok s => continue_ (some (partition s))
      | .err _ => continue_ none
      | .panic k => if cfg.catchPanic then continue_ none else (.abort k, st', ev)
      | .diverge => (.diverge, st', ev)

end Irr
