import Bgpfu.Drive.Framing
import Bgpfu.Drive.Xml
import Bgpfu.Drive.Session
import Bgpfu.Drive.Run
import Bgpfu.Drive.Daemon
import Bgpfu.Drive.Writers
import Bgpfu.Drive.Policy
import Bgpfu.Drive.Builders
import Bgpfu.Drive.LogTable
import Bgpfu.Drive.Irr
import Bgpfu.Drive.Fetch
import Bgpfu.Drive.FetchInstalled
/-! `modeld`: one request per line on stdin, one answer per line on stdout.
A line is `<op> <arg>…` separated by single spaces; unknown ops / malformed args answer `bad-op`. -/

def dispatch (ws : List String) : String :=
  let r :=
    match ws with
    | "frame" :: rest => Framing.drive rest
    | "xml" :: rest => Xml.drive rest
    | "sess" :: rest => Session.drive rest
    | "run" :: rest => Run.drive rest
    | "daemon" :: rest => Daemon.drive rest
    | "ser" :: rest => Writers.drive rest
    | "plan" :: rest => Policy.drive rest
    | "build" :: rest => Builders.drive rest
    | "logs" :: rest => LogTable.drive rest
    | "irr" :: rest => Irr.drive rest
    | "fetch" :: rest => Xml.FetchDrive.drive rest
    | "instev" :: rest => Xml.InstDrive.drive rest
    | _ => none
  r.getD "bad-op"

partial def loop (h : IO.FS.Stream) (out : IO.FS.Stream) : IO Unit := do
  let line ← h.getLine
  if line.isEmpty then return ()
  let ws := (line.trimAscii.toString.splitOn " ").filter (· ≠ "")
  out.putStrLn (dispatch ws)
  loop h out

def main : IO Unit := do
  let stdin ← IO.getStdin
  let stdout ← IO.getStdout
  loop stdin stdout
  stdout.flush
