import Bgpfu.Model.Framing
import Bgpfu.Model.Caps
import Bgpfu.Model.Rfc6241
import Bgpfu.Model.Builders
import Bgpfu.Model.BuildSpec
