import Bgpfu.Model.Framing
