#!/bin/sh
# MANIFEST.setup_cmd: build everything from files on disk only (offline).
set -e
cd "$(dirname "$0")"
export CARGO_NET_OFFLINE=true
(cd lean && lake build Bgpfu modeld)
(cd harness && cargo build --offline)
mkdir -p evidence replays work
echo setup-ok
