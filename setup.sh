#!/bin/sh
# MANIFEST.setup_cmd: build everything from files on disk only (offline).
set -e
cd "$(dirname "$0")"
export CARGO_NET_OFFLINE=true
python3 tools/logtable.py >/dev/null   # C20: regenerate Bgpfu/Model/LogTableGen.lean from /repo
(cd lean && lake build Bgpfu modeld)
(cd harness && cargo build --offline)
# C20 and the e2e op run the real agent binary (built into our own target dir, /repo is not written to);
# e2e c02 runs the release-profile binary
cargo build --offline --manifest-path /repo/Cargo.toml -p bgpfu-junos-agent --target-dir "$(pwd)/repo-target" >/dev/null 2>&1 || echo "warning: agent binary not built (C20 will try again)"
cargo build --offline --release --manifest-path /repo/Cargo.toml -p bgpfu-junos-agent --target-dir "$(pwd)/repo-target" >/dev/null 2>&1 || echo "warning: release agent binary not built (C02 will try again)"
mkdir -p evidence replays work
echo setup-ok
